"""C14 - exported data re-imports to the same dataset (DESIGN.md section 7, C14).

Theorems: coq/Codec14/C14.v (escape/decode inverse, the line tokenizer on rendered lines, the N-Quads,
N-Triples and Turtle round trips outside the narrow known classes).
Correspondence: the real SparqlDatabase (generate_* / parse_*) and the private codec functions (verif_c14_*
hooks) against the Gallina model coq/Codec14/{Model,Turtle}.v; Spec oracle: the lexical quad set read back
from an empty database equals the exported one (all graphs for N-Quads, the default graph for the others).
"""
import itertools
import json
import os
import vf

PROP_RULE = ("round-trip cases are datasets (1-7 quads) built through the dictionary / quoted-triple store API, "
             "exported in the three formats and re-imported into empty databases; function-level cases are "
             "single calls of one codec function. A round-trip case is non-trivial when the dataset has at least "
             "one literal containing a character that the codec treats specially (quote, backslash, LF, CR, TAB, "
             "<, >, ^, @, ., ;, , or #), or a quoted triple, or a named graph; a function-level case when the "
             "output is non-empty and differs from the input; distinct by the rendered case.")

REQ = ["KV.Codec14.Model", "KV.Codec14.Turtle", "KV.Codec14.Spec", "KV.Codec14.Run"]
PRE = "Open Scope N_scope."
FN = {"escape": 0, "decode": 1, "iri": 2, "parts": 3, "clean_nt": 4, "nq_line": 5, "nt_line": 6, "tok_ttl": 7,
      "clean_ttl": 8, "ets": 9, "split_qt": 10, "resolve": 11}
SPECIAL = set('"\\\n\r\t<>^@.;,#')
WS = set(chr(c) for c in list(range(9, 14)) + [32, 133, 160, 5760] + list(range(8192, 8203)) + [8232, 8233, 8239, 8287, 12288])


# ---- Coq encodings ----------------------------------------------------------------------------------
def cstr(s):
    return "[" + "; ".join(str(ord(c)) for c in s) + "]"


def cquad(q):
    s, p, o, g = q
    return "(%s, %s, %s, %s)" % (cstr(s), cstr(p), cstr(o), "None" if g is None else "(Some %s)" % cstr(g))


def cquads(qs):
    return "[" + "; ".join(cquad(q) for q in qs) + "]"


def pstr(v):
    return "".join(chr(c) for c in v)


def pquad(v):
    s, p, o, g = v
    return (pstr(s), pstr(p), pstr(o), None if g is None else pstr(g[1]))


def pquads(v):
    return sorted(set(pquad(q) for q in v), key=repr)


def ptres(v):
    """tres -> ('ok', quads) | ('unsupported',) | ('panic',)"""
    if isinstance(v, tuple) and v[0] == "TOk":
        return ("ok", pquads(v[1]))
    if v == "TUnsupported":
        return ("unsupported",)
    raise ValueError(v)


def iquads(v):
    return sorted(set((q[0], q[1], q[2], q[3]) for q in v), key=repr)


# ---- Python copies of the classifiers of Spec.v (cross-checked against the Coq ones on every case) -------
def looks_like_absolute_iri(v):
    if ":" not in v:
        return False
    sch = v.split(":", 1)[0]
    return len(sch) > 0 and sch[0].isascii() and sch[0].isalpha() and all(
        (c.isascii() and c.isalnum()) or c in "+-." for c in sch[1:])


def trim(v):
    i, j = 0, len(v)
    while i < j and v[i] in WS:
        i += 1
    while j > i and v[j - 1] in WS:
        j -= 1
    return v[i:j]


def iri_char(c):
    return ord(c) > 32 and c not in '<>"{}|^`\\'


def wf_iri(v):
    return looks_like_absolute_iri(v) and all(iri_char(c) for c in v)


def wf_bnode(v):
    return len(v) >= 3 and v.startswith("_:") and all((c.isascii() and c.isalnum()) or c in "_-." for c in v[2:])


def kind_guess_stable(v):
    return not v.startswith("<<") and not v.startswith("_:") and not looks_like_absolute_iri(v) \
        and not (v.startswith("<") and v.endswith(">"))


def wf_quad(q):
    s, p, o, g = q
    return (wf_iri(s) or wf_bnode(s)) and wf_iri(p) and (wf_iri(o) or wf_bnode(o) or kind_guess_stable(o)) \
        and (g is None or wf_iri(g) or wf_bnode(g))


def dd_term(v):
    return v.startswith('"') or trim(v) != v


def dd_quad(q):
    return dd_term(q[0]) or dd_term(q[1]) or dd_term(q[2])


def dd_ttl_narrow(q):
    """known_dd_ttl of Spec.v"""
    return q[3] is None and q[2].startswith('"') and q[2].endswith('"')


def dd_ttl_quad(q):
    """Turtle: resolve_query_term strips the quotes of a value that starts and ends with one; when the subject or the
    object is a quoted triple, parse_turtle sends all three terms through encode_term_star (the N-Quads class)"""
    return dd_ttl_narrow(q) or (q[3] is None and (q[0].startswith("<<") or q[2].startswith("<<")) and dd_quad(q))


def render_escape(v):
    return v.replace("\\", "\\\\").replace('"', '\\"').replace("\n", "\\n").replace("\r", "\\r").replace("\t", "\\t")


def ttl_obj_text(o):
    if o.startswith("<<"):
        return o
    if o.startswith("http://") or o.startswith("https://"):
        return "<" + o + ">"
    return '"' + render_escape(o) + '"'


def plain_inner_literal(v):
    """inner literal of a quoted triple that survives being written bare (forallb word_ok of Spec.v): single-spaced
    words without TAB / LF / CR, quotes, angle brackets or backslashes; other white-space characters (U+00A0, U+3000,
    U+2028 ...) may occur inside a word but not at its ends"""
    if v == "":
        return True
    ws = v.split(" ")
    return all(w != "" and not (set(w) & set('\t\n\r"<>\\')) and w[0] not in WS and w[-1] not in WS for w in ws)


def qt_safe(t):
    """quoted triple (case tree) all of whose components are written unambiguously (= qsafe of coq/Codec14/Spec.v)"""
    s, p, o = t["q"]
    nows = lambda v: not (set(v) & WS)
    if isinstance(s, dict):
        if not qt_safe(s):
            return False
    elif not ((wf_iri(s) and nows(s)) or wf_bnode(s)):
        return False
    if not (wf_iri(p) and nows(p)):
        return False
    if isinstance(o, dict):
        return qt_safe(o)
    return (wf_iri(o) and nows(o)) or wf_bnode(o) or (kind_guess_stable(o) and plain_inner_literal(o))


def case_terms(case):
    return [t for q in case["quads"] for t in q[:3]]


# ---- generators ---------------------------------------------------------------------------------------
ALPHA = ['"', '\\', '\n', '\r', '\t', '<', '>', '^', '@', ' ', '.', ';', ',', '#', '{', '|', '}', '_', ':', '-',
         'a', 'b', 'n', 'u', '0', '\u00e9', '\u00a0', '\u2028', '\U0001F600', '\U0010FFFF', "'", '/']
WORDS = ["", "plain", "two words", "he said \"hi\"\\ \n end", "a.b;c,d # e", "x^^y@en", "tab\there", "\\n", "\\",
         "line1\r\nline2", "<b>bold</b", "1 < 2 > 0", "Summary\nStatus: open", "TODO\r\nfix: the parser", "\nnote: x",
         "a\tb: c", "\rk:v", "x\ny+z.w-1:", "\u00e9t\u00e9 \U0001F600", "{| x", "a |} b", "\\u0041", "'q'"]
IRI_PATH = list("abcxyz0189") + ['.', ';', ',', '#', '@', '/', '?', '=', '&', '%', '~', '-', '_', '!', '$', "'", '(', ')', '*', '+',
                                 '\u00e9', '\U0001F600', ':']


def gen_iri(rng):
    sch = rng.choice(["http://", "https://", "urn:", "mailto:", "http://", "https://"])
    n = rng.choice([1, 2, 3, 5, 9])
    body = "".join(rng.choice(IRI_PATH) for _ in range(n))
    if sch in ("http://", "https://"):
        return sch + rng.choice(["ex.org/", "a.b/c#", "h/"]) + body
    return sch + rng.choice(["x:", "a@", "k"]) + body


def gen_bnode(rng):
    return "_:" + rng.choice(["b", "g", "n0", "B_1", "x-y", "b.1"]) + rng.choice(["", "0", "1", "z"])


def gen_literal(rng):
    r = rng.random()
    if r < 0.25:
        return rng.choice(WORDS)
    n = rng.choice([0, 1, 1, 2, 2, 3, 4, 6, 10])
    return "".join(rng.choice(ALPHA) for _ in range(n))


def gen_plain_literal(rng):
    """a literal outside the double-decoding class and kind-stable (for quads that are expected to survive)"""
    for _ in range(50):
        v = gen_literal(rng)
        if kind_guess_stable(v) and not dd_term(v):
            return v
    return "v"


def gen_qt(rng, depth, unsafe=False):
    s = gen_qt(rng, depth - 1, unsafe) if depth > 0 and rng.random() < 0.3 else rng.choice([gen_iri(rng), gen_bnode(rng)])
    p = gen_iri(rng)
    r = rng.random()
    if depth > 0 and r < 0.3:
        o = gen_qt(rng, depth - 1, unsafe)
    elif r < 0.6:
        o = gen_iri(rng)
    elif r < 0.7:
        o = gen_bnode(rng)
    else:
        o = rng.choice(["w", "two words", "a b c", "x1", "", "d.e", "v;w,x", "\u00e9 \U0001F600", "k-v", "{|x|}", "a {| b",
                        "\u5168\u89d2\u3000\u30b9\u30da\u30fc\u30b9", "prix\u00a0fixe", "a\u2028b c", "x\u3000y z\u00a0w"])
        if unsafe and rng.random() < 0.5:
            o = rng.choice(["a  b", " lead", "trail ", "tab\there", "line\nbreak", "x\"y", "\"q\"", "a>>b", "<<a", "b\\", "he said \"hi\"", "x<y", "x>y"])
    return {"q": [s, p, o]}


def gen_db(rng, qt=False, clean=False, unsafe=False):
    n = rng.choice([1, 1, 2, 3, 4, 5, 7])
    subs = [gen_iri(rng) for _ in range(2)] + [gen_bnode(rng)]
    preds = [gen_iri(rng) for _ in range(2)]
    graphs = [None, None, None, gen_iri(rng), gen_bnode(rng)]
    quads = []
    for _ in range(n):
        s = rng.choice(subs) if rng.random() < 0.8 else gen_iri(rng)
        p = rng.choice(preds) if rng.random() < 0.8 else gen_iri(rng)
        r = rng.random()
        if r < 0.15:
            o = gen_iri(rng)
        elif r < 0.22:
            o = gen_bnode(rng)
        else:
            o = gen_plain_literal(rng) if clean else gen_literal(rng)
        if qt:
            if rng.random() < 0.35:
                s = gen_qt(rng, 2, unsafe)
            if rng.random() < 0.35:
                o = gen_qt(rng, 2, unsafe)
        quads.append([s, p, o, rng.choice(graphs)])
    return {"op": "rt", "quads": quads}


PREFIX_POOL = [("ex", "http://example.org/ns/"), ("foaf", "http://xmlns.com/foaf/0.1/"), ("v", "https://a.b/v#"), ("d", "urn:data:")]
LOCALS = ["v1.0", "john.doe", "has-file", "index.html", "a_b", "x", "name", "r2.d2.c3po", "0", "a.b.c", "k-1.2", "\u00e9t\u00e9.x"]


def gen_prefix_db(rng):
    """a database WITH declared prefixes and IRIs inside those namespaces (dots, dashes, digits in the local part)"""
    pf = dict(rng.sample(PREFIX_POOL, rng.choice([1, 2, 2, 3])))
    ns = list(pf.values())
    iri = lambda: rng.choice(ns) + rng.choice(LOCALS) if rng.random() < 0.8 else gen_iri(rng)
    quads = []
    subs = [iri(), iri()]
    for _ in range(rng.choice([1, 2, 3, 4, 6])):
        r = rng.random()
        if r < 0.45:
            o = iri()
        elif r < 0.5:
            o = gen_bnode(rng)
        elif r < 0.58:      # the narrow known class: a term whose text before the first colon is a declared prefix name
            o = rng.choice(list(pf)) + rng.choice([":foo", ": note", ":v1.0"])
        else:
            o = gen_plain_literal(rng)
        quads.append([rng.choice(subs), iri(), o, rng.choice([None, None, None, gen_iri(rng)])])
    return {"op": "rt", "quads": quads, "prefixes": pf}


def has_qt(case):
    return any(isinstance(t, dict) for q in case["quads"] for t in q[:3])


# ---- evaluation of round-trip cases ---------------------------------------------------------------------
def wf_case(case):
    for s, p, o, g in case["quads"]:
        if isinstance(s, dict):
            if not qt_safe(s):
                return False
        elif not (wf_iri(s) or wf_bnode(s)):
            return False
        if isinstance(p, dict) or not wf_iri(p):
            return False
        if isinstance(o, dict):
            if not qt_safe(o):
                return False
        elif not (wf_iri(o) or wf_bnode(o) or kind_guess_stable(o)):
            return False
        if g is not None and not (wf_iri(g) or wf_bnode(g)):
            return False
    return True


def eval_rt(ctx, binpath, cases, stream, report=True):
    """Runs round-trip cases on the implementation and the model; returns the Spec verdict per case and format:
    ok | known:<finding id> | outside-quantifier | violation."""
    impl = ctx.run_impl(binpath, cases)
    exprs = []
    for c, im in zip(cases, impl):
        if im is None or "orig" not in im:
            exprs.append("(run_rt [] [], run_class [])")
            continue
        db = [tuple(q) for q in im["orig"]]
        dflt = [tuple(q) for q in im["orig_default"]]
        exprs.append("(run_rt %s %s, run_class %s)" % (cquads(db), cquads(dflt), cquads(db)))
    model = ctx.run_model("Codec14", REQ, exprs, preamble=PRE)
    verdicts = []
    counts = dict(cases=len(cases), impl_model_mismatches=0, spec_violations=0, in_known_class=0, outside_quantifier=0,
                  quoted=0, roundtrip_ok_all_formats=0, quads=0, named_graph_quads=0)
    for c, im, mo in zip(cases, impl, model):
        ctx.count()
        v = {"nq": None, "nt": None, "ttl": None}
        verdicts.append(v)
        if im is None or "orig" not in im:
            ctx.violation(c, {"what": "the driver died or panicked while building / exporting the database", "impl": im})
            counts["spec_violations"] += 1
            continue
        if isinstance(mo, tuple) and mo and mo[0] == "ERROR":
            ctx.broken("correspondence", stream, "model evaluation failed: %s" % (mo[1],), c)
            continue
        m_nq, m_nq_back, (m_nt, m_nt_back), (m_ttl, m_ttl_back), m_class = mo
        orig = iquads(im["orig"])
        dflt = [q for q in orig if q[3] is None]
        counts["quads"] += len(orig)
        counts["named_graph_quads"] += len(orig) - len(dflt)
        qt = any(isinstance(x, dict) for x in case_terms(c))
        qt_ok = all(qt_safe(x) for x in case_terms(c) if isinstance(x, dict))
        wf = wf_case(c)
        if not qt:
            py_class = [int(wf), int(any(dd_quad(q) for q in orig)), int(any(dd_ttl_narrow(q) for q in orig))]
            if py_class != list(m_class):
                ctx.broken("correspondence", stream + ":classifier",
                           "Python and Coq classifiers disagree: py=%s coq=%s" % (py_class, list(m_class)), c)
        counts["quoted"] += int(qt)
        mism = []
        # -- exported texts: the model is run on the implementation's own iteration order, so the texts must be equal
        prefixes = c.get("prefixes") or {}
        ttl_body = im["ttl"]
        if prefixes:
            # generate_turtle writes one @prefix line per declared prefix (hash-map order), a blank line, then the statements
            lines_ = im["ttl"].split("\n")
            k = 0
            while k < len(lines_) and lines_[k].startswith("@prefix"):
                k += 1
            header = sorted(lines_[:k])
            if header != sorted("@prefix %s: <%s> ." % kv for kv in prefixes.items()) or (k < len(lines_) and lines_[k] != ""):
                mism.append({"what": "Turtle prefix header differs", "impl": lines_[:k + 1], "prefixes": prefixes})
            ttl_body = "\n".join(lines_[k + 1:])
        capture = lambda q: q[3] is None and any((":" in x and not x.startswith("http://") and not x.startswith("https://")
                                                  and not x.startswith("<<") and x.split(":", 1)[0] in prefixes) for x in q[:3])
        for key, mt, it in (("nq", m_nq, im["nq"]), ("nt", m_nt, im["nt"]), ("ttl", m_ttl, ttl_body)):
            if it != pstr(mt):
                mism.append({"what": "exported %s text differs" % key, "impl": it, "model": pstr(mt)})
        # -- quads read back
        backs = {}
        for key, mb in (("nq", ("ok", pquads(m_nq_back))), ("nt", ("ok", pquads(m_nt_back))), ("ttl", ptres(m_ttl_back))):
            ib = im[key + "_back"]
            ib = ("ok", iquads(ib["quads"])) if "quads" in ib else ("panic",)
            backs[key] = ib
            if mb[0] == "unsupported" or (key == "ttl" and any(capture(q) for q in orig)):
                continue
            if ib != mb:
                mism.append({"what": "quads read back from %s differ" % key, "impl": ib, "model": mb})
        # -- Spec oracle: the set read back equals the exported set (N-Quads: all graphs; others: default graph)
        bad = None
        for key in ("nq", "nt", "ttl"):
            expected = orig if key == "nq" else dflt
            ib = backs[key]
            if ib[0] == "ok" and ib[1] == expected:
                v[key] = "ok"
                continue
            missing = [q for q in expected if ib[0] != "ok" or q not in ib[1]]
            extra = [q for q in ib[1] if q not in expected] if ib[0] == "ok" else []
            if qt and not qt_ok:
                v[key] = "known:C14-quoted-triple-bare-components"
                continue
            if key == "ttl" and any(q[3] is None and q[2].startswith("<<") and "{|" in q[2] for q in orig):
                # a quoted-triple object is written bare, so an annotation marker inside it is taken for an annotation
                v[key] = "known:C14-quoted-triple-bare-components"
                continue
            # N-Quads / N-Triples: no double-decoding class is left (commit 16f77b9); Turtle path unchanged
            known = (lambda q: dd_ttl_quad(q) or capture(q)) if key == "ttl" else (lambda q: False)
            if ib[0] == "ok" and all(known(q) for q in missing) and (not extra or missing):
                v[key] = "known:C14-turtle-prefix-capture" if any(capture(q) for q in missing) else "known:C14-double-decoding"
                continue
            if not wf:
                v[key] = "outside-quantifier"
                continue
            v[key] = "violation"
            bad = {"what": "the %s export does not re-import to the same set of quads" % key, "format": key,
                   "text": im[key], "expected": expected, "read_back": ib, "missing": missing, "extra": extra}
            break
        if bad:
            counts["spec_violations"] += 1
            if report:
                ctx.violation(c, bad)
        elif mism:
            counts["impl_model_mismatches"] += 1
            if report:
                ctx.broken("correspondence", stream, mism[0], c)
        if any(str(x).startswith("known") for x in v.values()):
            counts["in_known_class"] += 1
        if any(x == "outside-quantifier" for x in v.values()):
            counts["outside_quantifier"] += 1
        if all(x == "ok" for x in v.values()):
            counts["roundtrip_ok_all_formats"] += 1
        lits = [q[2] for q in orig if not wf_iri(q[2]) and not wf_bnode(q[2])]
        if any(set(l) & SPECIAL for l in lits) or qt or any(q[3] is not None for q in orig):
            ctx.nontrivial(("rt", orig))
    if report:
        ctx.stream(stream, **counts)
        ctx.log("stream %s: %s" % (stream, counts))
    return verdicts


def eval_fn(ctx, binpath, cases, stream):
    impl = ctx.run_impl(binpath, cases)
    exprs = ["run_fn %d %s" % (FN[c["f"]], cstr(c["x"])) for c in cases]
    model = ctx.run_model("Codec14", REQ, exprs, preamble=PRE)
    nmis = 0
    for c, im, mo in zip(cases, impl, model):
        ctx.count()
        if isinstance(mo, tuple) and mo and mo[0] == "ERROR":
            ctx.broken("correspondence", stream, "model evaluation failed: %s" % (mo[1],), c)
            continue
        m = [pstr(x) for x in mo]
        f = c["f"]
        if im is None or ("out" not in im and "panic" not in im):
            ctx.broken("correspondence", stream, "driver died", c)
            continue
        if "panic" in im:
            i = ["<panic>"]
        else:
            o = im["out"]
            if f in ("escape", "clean_nt", "ets", "resolve", "clean_ttl"):
                i = [o]
            elif f == "decode":
                i = ["\x00"] if o is None else ["\x01", o[0], o[1]]
            elif f == "iri":
                i = ["\x01" if o else "\x00"]
            elif f in ("parts", "tok_ttl", "split_qt"):
                i = list(o)
            elif f in ("nq_line", "nt_line"):
                i = ["\x00"] if o is None else ["\x01"] + [x for x in o if x is not None]
        if i != m:
            nmis += 1
            ctx.broken("correspondence", stream, {"what": "function %s: implementation and model differ" % f,
                                                   "input": c["x"], "impl": i, "model": m}, c)
        if m and m != [c["x"]] and any(len(x) > 0 for x in m):
            ctx.nontrivial(("fn", f, c["x"]))
    ctx.stream(stream, cases=len(cases), impl_model_mismatches=nmis)
    ctx.log("stream %s: cases=%d mismatches=%d" % (stream, len(cases), nmis))


# ---- function-level generators ------------------------------------------------------------------------------
def rnd_str(rng, alpha, nmax):
    return "".join(rng.choice(alpha) for _ in range(rng.randrange(nmax + 1)))


def render_term_nq(rng, t, obj):
    if t.startswith("<<") or t.startswith("_:"):
        return t
    if not obj or looks_like_absolute_iri(t):
        return "<" + t + ">"
    esc = t.replace("\\", "\\\\").replace('"', '\\"').replace("\n", "\\n").replace("\r", "\\r").replace("\t", "\\t")
    suffix = rng.choice(["", "", "", "@en", "@en-GB", "^^<http://www.w3.org/2001/XMLSchema#string>", "^^xsd:int", "^", "@", "^^", "^^<x", "@\u00e9\U0001F600"])
    return '"' + esc + '"' + suffix


def gen_line(rng):
    s = rng.choice([gen_iri(rng), gen_bnode(rng), "<< http://a/s http://a/p o >>"])
    p = rng.choice([gen_iri(rng), "a"])
    o = rng.choice([gen_iri(rng), gen_bnode(rng), gen_literal(rng), gen_literal(rng), "<< http://a/s http://a/p << http://b http://c d >> >>"])
    g = rng.choice([None, None, gen_iri(rng), gen_bnode(rng)])
    ts = [render_term_nq(rng, s, False), "a" if p == "a" else "<" + p + ">", render_term_nq(rng, o, True)]
    if g is not None:
        ts.append(render_term_nq(rng, g, False))
    line = rng.choice([" ", " ", "  ", "\t"]).join(ts)
    r = rng.random()
    if r < 0.3:   # mutate: delete / insert / replace a character
        k = rng.randrange(len(line) + 1)
        m = rng.random()
        if m < 0.4 and line:
            line = line[:k] + line[k + 1:]
        elif m < 0.8:
            line = line[:k] + rng.choice(ALPHA) + line[k:]
        else:
            line = line[:k] + rng.choice(ALPHA) + line[k + 1:]
    return line


def gen_fn_cases(rng, n):
    cases = []
    lit_alpha = ALPHA
    for _ in range(n):
        cases.append({"op": "fn", "f": "escape", "x": gen_literal(rng)})
        body = rnd_str(rng, ['"', '\\', '\\', 'n', 'r', 't', 'b', 'f', "'", 'u', 'U', '0', '4', '1', 'A', 'd', 'D', '8', 'F', 'g', ' ', 'x', '\n', '\U0001F600'], 12)
        cases.append({"op": "fn", "f": "decode", "x": rng.choice(['"', '"', '"', '', 'x']) + body + rng.choice(['"', '"', '', '"^^<x>', '"@en'])})
        cases.append({"op": "fn", "f": "iri", "x": rng.choice([gen_iri(rng), gen_literal(rng), rnd_str(rng, list("aZ09+-.:_/ \u00e9"), 6)])})
        line = gen_line(rng)
        cases.append({"op": "fn", "f": "parts", "x": line})
        cases.append({"op": "fn", "f": "nq_line", "x": line})
        cases.append({"op": "fn", "f": "nt_line", "x": line})
        term = rng.choice([render_term_nq(rng, gen_literal(rng), True), rnd_str(rng, lit_alpha, 6), " <" + gen_iri(rng) + "> ",
                           '"' + rnd_str(rng, lit_alpha, 5) + '"', "<<" + rnd_str(rng, lit_alpha, 5) + ">>"])
        cases.append({"op": "fn", "f": "clean_nt", "x": term})
        cases.append({"op": "fn", "f": "clean_ttl", "x": term})
        cases.append({"op": "fn", "f": "resolve", "x": term})
        cases.append({"op": "fn", "f": "ets", "x": rng.choice([term, gen_literal(rng), "<< " + gen_iri(rng) + " " + gen_iri(rng) + " " + gen_literal(rng) + " >>"])})
        cases.append({"op": "fn", "f": "split_qt", "x": rng.choice([rnd_str(rng, ['<', '>', '"', '\\', ' ', ' ', 'a', 'b', '\t', ':'], 14),
                                                                    gen_iri(rng) + " " + gen_iri(rng) + "  " + gen_literal(rng)])})
        ttl = gen_line(rng).replace("\n", " ") + rng.choice([" .", " ;", " , \"x\" .", ".", " . # c", ""])
        cases.append({"op": "fn", "f": "tok_ttl", "x": ttl})
    return cases


def gen_ttl_doc(rng):
    lines = []
    for _ in range(rng.choice([1, 1, 2, 3])):
        s = rng.choice(["<" + gen_iri(rng) + ">", "<" + gen_bnode(rng) + ">", "<< <http://a/s> <http://a/p> \"x y\" >>"])
        stmt = s
        for i in range(rng.choice([1, 1, 2])):
            stmt += (" ; " if i else " ") + "<" + gen_iri(rng) + ">"
            for j in range(rng.choice([1, 1, 2])):
                o = rng.choice([render_term_nq(rng, gen_literal(rng), True), "<" + gen_iri(rng) + ">", render_term_nq(rng, gen_plain_literal(rng), True),
                                "<< <http://a/s> <http://a/p> <http://a/o> >>"])
                if rng.random() < 0.35:
                    o += rng.choice([" {| <http://a/q> \"z\" |}", " {| <http://a/q> <http://a/z> |}", " {| <http://a/q> |}", " {| |}", " {|", " |} {| a b",
                                     " {| <http://a/q> \"u v\" |}", "{|<http://a/q> \"w\"|}"])
                stmt += (" ," if j else "") + " " + o
        stmt += rng.choice([" .", " .", ".", "", " . # c"])
        if rng.random() < 0.15 and stmt:
            k = rng.randrange(len(stmt))
            stmt = stmt[:k] + rng.choice(ALPHA) + stmt[k + rng.choice([0, 1]):]
        if stmt.lstrip().startswith("@prefix") or stmt.lstrip().startswith("PREFIX"):
            stmt = "<http://a/s> <http://a/p> \"x\" ."
        lines.append(stmt.replace("\n", " "))
    return "\n".join(lines) + rng.choice(["\n", "", "\r\n"])


def eval_load(ctx, binpath, cases, stream):
    fmt = {"nq": 0, "nt": 1, "ttl": 2}
    impl = ctx.run_impl(binpath, cases)
    exprs = ["run_load %d %s" % (fmt[c["fmt"]], cstr(c["text"])) for c in cases]
    model = ctx.run_model("Codec14", REQ, exprs, preamble=PRE)
    nmis = nun = 0
    for c, im, mo in zip(cases, impl, model):
        ctx.count()
        if isinstance(mo, tuple) and mo and mo[0] == "ERROR":
            ctx.broken("correspondence", stream, "model evaluation failed: %s" % (mo[1],), c)
            continue
        m = ptres(mo)
        if m[0] == "unsupported":
            nun += 1
            continue
        i = ("ok", iquads(im["quads"])) if im and "quads" in im else ("panic", im)
        if i != m:
            nmis += 1
            ctx.broken("correspondence", stream, {"what": "loading a %s document: implementation and model differ" % c["fmt"],
                                                   "text": c["text"], "impl": i, "model": m}, c)
        if m[1]:
            ctx.nontrivial(("load", c["fmt"], c["text"]))
    ctx.stream(stream, cases=len(cases), impl_model_mismatches=nmis, model_unsupported=nun)
    ctx.log("stream %s: cases=%d mismatches=%d unsupported=%d" % (stream, len(cases), nmis, nun))


# ---- corpus / known findings ----------------------------------------------------------------------------------
def load_corpus():
    d = os.path.join(vf.VERIF, "corpus", "C14")
    out = []
    for fn in sorted(os.listdir(d)):
        if fn.endswith(".json"):
            with open(os.path.join(d, fn)) as f:
                j = json.load(f)
            j["file"] = fn
            out.append(j)
    return out


def run(ctx):
    ctx.coq("Codec14", "C14.v")
    binpath = os.environ.get("VERIF_C14_BIN") or ctx.harness("c14")    # the override is for the developer's self-test on a private copy
    rng = ctx.rng

    # 1. corpus: repaired witnesses must round-trip; witnesses of open findings are replayed
    corpus = load_corpus()
    cases = [c["case"] for c in corpus]
    verdicts = eval_rt(ctx, binpath, cases, "corpus")
    open_ids = {k["id"]: k for k in ctx.known_findings()}
    reproduced = {}
    for c, v in zip(corpus, verdicts):
        exp = c.get("expect", "ok")
        per = c.get("expect_formats")     # e.g. {"nq": "ok", "nt": "ok", "ttl": "C14-double-decoding"}
        if per is None:
            per = {k: (exp if (exp == "ok" or k in c.get("formats", ["nq", "nt", "ttl"])) else None) for k in ("nq", "nt", "ttl")}
        still = {}
        for k, e in per.items():
            if e is None:
                continue
            if e == "ok":
                if v.get(k) != "ok":
                    ctx.violation(c["case"], {"what": "corpus case %s no longer round-trips in %s" % (c["file"], k), "verdicts": v})
            elif e in open_ids and v.get(k) == "known:" + e:
                still.setdefault(e, []).append(k)
        for e, ks in still.items():
            reproduced.setdefault(e, []).append("%s [%s]" % (c["file"], ",".join(ks)))
    for fid, files in sorted(reproduced.items()):
        ctx.known(fid, "%s; still reproduces on corpus/C14 witnesses %s" % (open_ids[fid].get("what", "")[:300], "; ".join(files)))
    ctx.sample(cases[0] if cases else None)

    # 2. exhaustive small scope: every literal of length <= L over a 13-letter alphabet as the object of one quad
    L = 3 if ctx.thorough else 2
    small = ['"', '\\', '\n', ' ', '<', '>', 'a', ':', '_', '.', '{', '|', '}']
    ex = []
    for n in range(L + 1):
        for tup in itertools.product(small, repeat=n):
            lit = "".join(tup)
            ex.append({"op": "rt", "quads": [["http://e/s", "http://e/p", lit, None], ["_:b", "http://e/p", lit, "http://e/g"]]})
    eval_rt(ctx, binpath, ex, "exhaustive_literals_len%d" % L)
    ctx.coverage["exhaustive"] = True
    ctx.coverage["exhaustive_scope"] = ("all %d literals of length <= %d over %r, each as object of a default-graph quad "
                                        "and of a named-graph quad with a blank-node subject, three formats" % (len(ex), L, small))

    # 3. random datasets: adversarial, clean (expected to survive in all formats), with quoted triples
    n = 3000 if ctx.thorough else 240
    n = max(6, int(n * float(os.environ.get("VERIF_C14_SCALE", "1"))))   # <1 only for the developer's mutation self-test
    rnd = [gen_db(rng) for _ in range(n)] + [gen_db(rng, clean=True) for _ in range(n // 2)]
    ctx.sample(rnd[0])
    eval_rt(ctx, binpath, rnd, "random_datasets")
    qts = [gen_db(rng, qt=True, clean=True) for _ in range(n // 3)] + [gen_db(rng, qt=True, unsafe=True) for _ in range(n // 6)]
    ctx.sample(qts[0])
    eval_rt(ctx, binpath, qts, "random_quoted_triples")

    # 3b. databases with a non-empty prefix map (generate_turtle writes @prefix lines; parse_turtle applies them)
    pfx = [gen_prefix_db(rng) for _ in range(max(10, n // 4))]
    ctx.sample(pfx[0])
    eval_rt(ctx, binpath, pfx, "random_with_prefixes")

    # 4. function-level streams
    fnc = gen_fn_cases(rng, 600 if ctx.thorough else max(6, n // 5))
    ctx.sample(fnc[3])
    eval_fn(ctx, binpath, fnc, "function_level")

    # 5. hand-built Turtle documents (annotation blocks, language tags, datatypes, malformed statements)
    docs = [{"op": "load", "fmt": "ttl", "text": gen_ttl_doc(rng)} for _ in range(max(12, n // 2))]
    docs += [{"op": "load", "fmt": rng.choice(["nq", "nt"]), "text": "\n".join(gen_line(rng) + rng.choice([" .", " .", "."]) for _ in range(3)) + "\n"}
             for _ in range(max(6, n // 6))]
    ctx.sample(docs[0])
    eval_load(ctx, binpath, docs, "load_documents")

    ctx.finish(
        level="proof", rule=PROP_RULE,
        trusted_base=[
            "Coq 8.16.1 kernel; vm_compute for running the model in the correspondence check",
            "hand-written Gallina model coq/Codec14/{Model,Turtle}.v of generate_nquads/ntriples/turtle, escape_ntriples_literal, "
            "looks_like_absolute_iri, parse_ntriples_parts, clean_ntriples_term, decode_ntriples_literal, parse_nquads_line, "
            "parse_ntriples_line, encode_term_star (+ split_quoted_triple_content), tokenize_turtle_star_line, clean_turtle_term, "
            "resolve_query_term (no prefixes), parse_turtle's statement state machine",
            "correspondence check: harness/src/bin/c14.rs (public API + add-only verif_c14_* hooks), checks/c14.py generators",
            "Rust String modelled as a list of code points; str::trim/lines/char::is_whitespace re-stated in Gallina; "
            "char::is_alphanumeric exact below U+0100 only (language-tag scan)",
        ],
        assumptions=["the Turtle THEOREMS are for an empty prefix map; databases with prefixes are covered by the stream random_with_prefixes "
                     "(Spec oracle + model on the statements below the @prefix header), outside the class C14-turtle-prefix-capture",
                     "dictionary and quoted-triple store are injective term<->id maps (C15)",
                     "iteration order of the store is arbitrary: the model is run on the order the implementation reported"],
        extra={"partial": [
            "quoted-triple terms: theorems C14_*_quoted cover the safe class qsafe (= qt_safe of this check); quoted triples "
            "outside it are the open finding C14-quoted-triple-bare-components (refuted on the model for an inner literal with "
            "two spaces); for Turtle the class known_ttl_q also excludes a quoted-triple object containing the marker {|",
            "C14_turtle / C14_turtle_quoted are stated for a database with an empty prefix map"]})


def replay(ctx):
    binpath = ctx.harness("c14")
    c = ctx.replay["case"]
    if c.get("op") == "fn":
        eval_fn(ctx, binpath, [c], "replay")
    elif c.get("op") == "load":
        eval_load(ctx, binpath, [c], "replay")
    else:
        eval_rt(ctx, binpath, [c], "replay")
    ctx.finish(level="proof", rule=PROP_RULE)
