"""C03 - SPARQL Update applies exactly the standard effect, atomically (DESIGN.md section 7, C03).

Theorems: coq/Update/C03.v (the model of the update executor refines the Spec for every state, every
operation, every WHERE evaluator, every finite history with rejected requests interleaved).
Correspondence: histories of update requests are run on the real SparqlDatabase (entry points
SparqlDatabase::execute_update, handle_update, execute_sparql_update, execute_query_rayon_parallel2_volcano
and the executor itself through the add-only hook verif_c03_execute_update_operation), on the Gallina
model (KV.Update.Run.model_run) and on the Spec (spec_run); after every step the whole dataset (all
graphs), the catalog, the declared prefixes and the reported outcome are compared, up to a renaming of
the blank nodes allocated by the update executor.

Python AST (JSON): term = ["I",n] | ["P",n] | ["N",k,l] | ["Q",term,term,term]
tterm = ["V",v] | ["C",term] | ["B",l] | ["A"] | ["T",tterm,tterm,tterm]   (T: a quoted-triple template)
tgraph = None | ["V",v] | ["C",term] | ["X"];  tquad = [s,p,o,g];  pt = ["V",v] | ["C",term] | ["Q",pt,pt,pt]
block = [scope, [[pt,pt,pt]..]] with scope = None | ["C",term] | ["V",v] | ["VALS",v,[term..]];  where = [[block..]..] (UNION of joins;
the solutions form a sequence: UNION concatenates, VALUES repeats rows - duplicates are kept)
op = {"form": ID|DD|IW|DW|DIW|DWS, "del": [tquad..], "ins": [tquad..], "where": where}
request = {"op": op|None, "entry": xu|su|hu|vol|ast, "decl": [n..], "kind": ok|alias|select|trail|second|unclosed|keyword}
case = {"init": [[term,term,term,term|None]..], "graphs": [term..], "seed": [term..], "reqs": [request..]}
"""
import copy
import itertools
import json
import os
import re
import vf

RDF_TYPE = "http://www.w3.org/1999/02/22-rdf-syntax-ns#type"
PFX = {1: ("ex", "http://e/"), 2: ("foo", "http://foo/"), 3: ("bar", "http://bar/")}

PROP_RULE = ("a case is a history (random initial dataset with default and named graphs, empty graphs and blank nodes; "
             "1-30 requests over the six update forms with rejected and malformed requests interleaved) run on the "
             "implementation, the model and the Spec with the complete dataset, catalog, prefixes and outcome compared "
             "after every step. A case is non-trivial when at least one accepted operation reported inserted+deleted > 0 "
             "and the dataset after it differs from the dataset before it; distinct by the rendered request texts and "
             "initial dataset.")


# ---------------------------------------------------------------------------------------------
# rendering: lexical values (dictionary strings), SPARQL text, Coq terms
# ---------------------------------------------------------------------------------------------
# lexical forms at the border of `is_probable_absolute_iri` (scheme = ASCII letter, then ASCII letters/digits/+/-/.)
SPECIAL_IRI = {30: "urn:x30", 31: "a+b.c-1:z", 32: "x:", 33: "Z9:y:z"}
SPECIAL_PLAIN = {30: "1a:b", 31: ":x", 32: "a_b:c", 33: "\u00e9:x", 34: "ab", 35: "+a:b"}


def is_probable_absolute_iri(v):
    if ":" not in v:
        return False
    scheme = v.split(":", 1)[0]
    return (len(scheme) > 0 and scheme[0].isascii() and scheme[0].isalpha()
            and all((c.isascii() and c.isalnum()) or c in "+-." for c in scheme[1:]))


assert all(is_probable_absolute_iri(v) for v in SPECIAL_IRI.values())
assert not any(is_probable_absolute_iri(v) or v.startswith("_:") for v in SPECIAL_PLAIN.values())


def lex(t):
    """dictionary string of a term; a quoted triple is the nested list ["qt", s, p, o]"""
    if t[0] == "Q":
        return ["qt", lex(t[1]), lex(t[2]), lex(t[3])]
    if t[0] == "I":
        if t[1] in SPECIAL_IRI:
            return SPECIAL_IRI[t[1]]
        return RDF_TYPE if t[1] == 0 else "http://e/i%d" % t[1]
    if t[0] == "P":
        if t[1] in SPECIAL_PLAIN:
            return SPECIAL_PLAIN[t[1]]
        return "a" if t[1] == 0 else ("v%d" % t[1] if t[1] < 100 else str(t[1]))
    if t[1] == 0:
        return "_:u%d" % t[2]
    return "_:kolibrie-update-@%d-u%d" % (t[1], t[2])


def hx(v):
    """hashable form of a decoded term (nested lists -> nested tuples)"""
    return tuple(hx(x) for x in v) if isinstance(v, (list, tuple)) else v


def atoms_of(x):
    if isinstance(x, tuple):
        out = set()
        for y in x[1:]:
            out |= atoms_of(y)
        return out
    return set() if x is None else {x}


def subst(x, f):
    if isinstance(x, tuple):
        return (x[0],) + tuple(subst(y, f) for y in x[1:])
    return x if x is None else f(x)


def cterm(t):
    if t[0] == "Q":
        return "(Qt %s %s %s)" % (cterm(t[1]), cterm(t[2]), cterm(t[3]))
    if t[0] == "I":
        return "(Iri %d)" % t[1]
    if t[0] == "P":
        return "(Plain %d)" % t[1]
    return "(Bn %d %d)" % (t[1], t[2])


def cquad(q):
    return "(%s, %s, %s, %s)" % (cterm(q[0]), cterm(q[1]), cterm(q[2]), "None" if q[3] is None else "(Some %s)" % cterm(q[3]))


def clist(xs):
    return "[" + "; ".join(xs) + "]"


def ctterm(t):
    if t[0] == "V":
        return "(TVar %d)" % t[1]
    if t[0] == "C":
        return "(TConst %s)" % cterm(t[1])
    if t[0] == "B":
        return "(TBnode %d)" % t[1]
    if t[0] == "T":
        return "(TQuoted %s %s %s)" % (ctterm(t[1]), ctterm(t[2]), ctterm(t[3]))
    return "TKwA"


def ctgraph(g):
    if g is None:
        return "GDefault"
    if g[0] == "V":
        return "(GVar %d)" % g[1]
    if g[0] == "C":
        return "(GConst %s)" % cterm(g[1])
    return "GInvalid"


def ctquad(q):
    return "(TQ %s %s %s %s)" % (ctterm(q[0]), ctterm(q[1]), ctterm(q[2]), ctgraph(q[3]))


def cpt(p):
    if p[0] == "Q":
        return "(PQuoted %s %s %s)" % (cpt(p[1]), cpt(p[2]), cpt(p[3]))
    return "(PVar %d)" % p[1] if p[0] == "V" else "(PConst %s)" % cterm(p[1])


def cwhere(w):
    alts = []
    for join in w:
        blocks = []
        for scope, tps in join:
            if scope is None:
                sc = "SDefault"
            elif scope[0] == "V":
                sc = "(SVar %d)" % scope[1]
            elif scope[0] == "VALS":
                sc = "(SValues %d %s)" % (scope[1], clist(cterm(t) for t in scope[2]))
            else:
                sc = "(SConst %s)" % cterm(scope[1])
            blocks.append("(%s, %s)" % (sc, clist("(%s, %s, %s)" % (cpt(a), cpt(b), cpt(c)) for a, b, c in tps)))
        alts.append(clist(blocks))
    return clist(alts)


def cupdate(op):
    f = op["form"]
    d, i = clist(ctquad(q) for q in op["del"]), clist(ctquad(q) for q in op["ins"])
    if f == "ID":
        return "(InsertData %s)" % i
    if f == "DD":
        return "(DeleteData %s)" % d
    if f == "IW":
        return "(InsertWhere %s %s)" % (i, cwhere(op["where"]))
    if f == "DW":
        return "(DeleteWhere %s %s)" % (d, cwhere(op["where"]))
    if f == "DIW":
        return "(DeleteInsertWhere %s %s %s)" % (d, i, cwhere(op["where"]))
    if f == "DWS":
        return "(dws %s)" % d
    raise ValueError(f)


def short_where(quads):
    """parser.rs sparql_quads_to_group (mirrors KV.Update.Bgp.short_where); used for the text of ast DWS requests."""
    blocks = []
    for s, p, o, g in quads:
        def pt(t, pred=False):
            if t[0] == "V":
                return ["V", t[1]]
            if t[0] == "C":
                return ["C", t[1]]
            if t[0] == "B":
                return ["C", ["N", 0, t[1]]]
            if t[0] == "T":
                return ["Q", pt(t[1]), pt(t[2], True), pt(t[3])]
            return ["C", ["I", 0]] if pred else ["C", ["P", 0]]
        blocks.append([None if (g is None or g[0] == "X") else g, [[pt(s), pt(p, True), pt(o)]]])
    return [blocks]


class Renderer:
    """SPARQL text of terms; `ex:` is used only when the prefix is known to be declared."""

    def __init__(self, rng, ex_ok):
        self.rng, self.ex_ok = rng, ex_ok

    def term(self, t, pos):
        r = self.rng
        if t[0] == "Q":
            return "<< %s %s %s >>" % (self.term(t[1], "s"), self.term(t[2], "p"), self.term(t[3], "o"))
        if t[0] == "I":
            if t[1] == 0:
                return "<%s>" % RDF_TYPE
            if t[1] in SPECIAL_IRI:
                return ('"%s"' if pos == "o" and r.random() < 0.3 else "<%s>") % lex(t)
            if self.ex_ok and r.random() < 0.4:
                return "ex:i%d" % t[1]
            return "<http://e/i%d>" % t[1]
        if t[0] == "P":
            v = lex(t)
            if pos == "o":
                k = r.random()
                if t[1] >= 100 and k < 0.5:
                    return v
                if k < 0.7:
                    return '"%s"' % v
                if k < 0.85:
                    return "'%s'" % v
            return "<%s>" % v
        # a blank-node constant (only the WHERE of an ast DELETE WHERE shorthand can carry one)
        return lex(t)

    def tterm(self, t, pos):
        if t[0] == "V":
            return ("?x%d" if self.rng.random() < 0.85 else "$x%d") % t[1]
        if t[0] == "C":
            return self.term(t[1], pos)
        if t[0] == "B":
            return "_:u%d" % t[1]
        if t[0] == "T":
            return "<< %s %s %s >>" % (self.tterm(t[1], "s"), self.tterm(t[2], "p"), self.tterm(t[3], "o"))
        return "a"

    def tgraph(self, g):
        if g[0] == "V":
            return "?x%d" % g[1]
        if g[0] == "C":
            return self.term(g[1], "g")
        return "<< ?x1 <http://e/i5> <http://e/i1> >>"

    def triple(self, q):
        return "%s %s %s" % (self.tterm(q[0], "s"), self.tterm(q[1], "p"), self.tterm(q[2], "o"))

    def quad_block(self, quads):
        parts = []
        i = 0
        while i < len(quads):
            q = quads[i]
            if q[3] is None:
                parts.append(self.triple(q) + (" ." if self.rng.random() < 0.8 or i + 1 < len(quads) else ""))
                i += 1
            else:
                j = i + 1
                # merge the following quads of the same graph into one GRAPH block (order preserved)
                while j < len(quads) and quads[j][3] == q[3] and self.rng.random() < 0.5:
                    j += 1
                parts.append("GRAPH %s { %s }" % (self.tgraph(q[3]), " . ".join(self.triple(x) for x in quads[i:j])))
                i = j
        return "{ " + " ".join(parts) + " }"

    def pt(self, p, pos):
        if p[0] == "V":
            return "?x%d" % p[1]
        if p[0] == "Q":
            return "<< %s %s %s >>" % (self.pt(p[1], "s"), self.pt(p[2], "p"), self.pt(p[3], "o"))
        if pos == "p" and p[1] == ["I", 0] and self.rng.random() < 0.5:
            return "a"
        return self.term(p[1], pos)

    def join(self, blocks):
        parts = []
        for scope, tps in blocks:
            body = " . ".join("%s %s %s" % (self.pt(a, "s"), self.pt(b, "p"), self.pt(c, "o")) for a, b, c in tps)
            if scope is None:
                if body:
                    parts.append(body + " .")
            elif scope[0] == "VALS":
                parts.append("VALUES ?x%d { %s }" % (scope[1], " ".join(self.term(t, "o") for t in scope[2])))
            elif scope[0] == "V":
                parts.append("GRAPH ?x%d { %s }" % (scope[1], body))
            else:
                parts.append("GRAPH %s { %s }" % (self.term(scope[1], "g"), body))
        return "{ " + " ".join(parts) + " }"

    def where(self, w):
        if len(w) == 1:
            return self.join(w[0])
        return "{ " + " UNION ".join(self.join(j) for j in w) + " }"

    def lexemes(self, quads):
        return [[self.tterm(q[0], "s"), self.tterm(q[1], "p"), self.tterm(q[2], "o"), None if q[3] is None else self.tgraph(q[3])]
                for q in quads]


def render_text(req, rr):
    op, kind = req["op"], req["kind"]
    kw = (lambda s: s.lower()) if rr.rng.random() < 0.15 else (lambda s: s)
    pre = "".join("PREFIX %s: <%s> " % PFX[d] for d in req["decl"])
    if kind == "select":
        return pre + "SELECT ?x1 WHERE { ?x1 ?x2 ?x3 }"
    f = op["form"]
    if kind == "alias":
        body = kw("INSERT ") + rr.quad_block(op["ins"]) if f == "ID" else kw("DELETE ") + rr.quad_block(op["del"])
    elif f == "ID":
        body = kw("INSERT DATA ") + rr.quad_block(op["ins"])
    elif f == "DD":
        body = kw("DELETE DATA ") + rr.quad_block(op["del"])
    elif f == "IW":
        body = kw("INSERT ") + rr.quad_block(op["ins"]) + kw(" WHERE ") + rr.where(op["where"])
    elif f == "DW":
        body = kw("DELETE ") + rr.quad_block(op["del"]) + kw(" WHERE ") + rr.where(op["where"])
    elif f == "DIW":
        body = kw("DELETE ") + rr.quad_block(op["del"]) + kw(" INSERT ") + rr.quad_block(op["ins"]) + kw(" WHERE ") + rr.where(op["where"])
    else:
        body = kw("DELETE WHERE ") + rr.quad_block(op["del"])
    text = pre + body
    if kind == "trail":
        text += rr.rng.choice([" garbage", " ;", " }", " . <http://e/i1>"])
    elif kind == "second":
        text += " ; INSERT DATA { <http://e/i1> <http://e/i5> <http://e/i2> }"
    elif kind == "unclosed":
        text = text.rstrip()[:-1]
    elif kind == "keyword":
        text = pre + rr.rng.choice(["INSRT DATA ", "CLEAR ALL ", "WITH <http://e/i8> ", "DROP GRAPH <http://e/i8> ", "LOAD ", "INSERT INTO "]) + body
    if rr.rng.random() < 0.1:
        text = text.replace(" WHERE ", "\nWHERE\t", 1) + " # trailing comment"
    return text


# ---------------------------------------------------------------------------------------------
# what the parser does with a request (trusted: the parser itself is property C16)
# ---------------------------------------------------------------------------------------------
LEGACY = ("hu", "vol")


def tt_has(t, tag):
    return t[0] == tag or (t[0] == "T" and any(tt_has(x, tag) for x in t[1:]))


def tq_has_var(q):
    return tt_has(q[0], "V") or tt_has(q[1], "V") or tt_has(q[2], "V") or (q[3] is not None and q[3][0] == "V")


def tq_has_bnode(q):
    return tt_has(q[0], "B") or tt_has(q[1], "B") or tt_has(q[2], "B")


def kwa_in(t, pred):
    if t[0] == "A":
        return pred
    return t[0] == "T" and (kwa_in(t[1], False) or kwa_in(t[2], True) or kwa_in(t[3], False))


def parser_accepts(op):
    f = op["form"]
    if any(q[3] is not None and q[3][0] == "X" for q in op["del"] + op["ins"]):
        return False
    if any(tq_has_bnode(q) for q in op["del"]):
        return False
    if f == "ID":
        return not any(tq_has_var(q) for q in op["ins"])
    if f == "DD":
        return not any(tq_has_var(q) for q in op["del"])
    return True


def model_request(req):
    """(Coq request, parses) for a python request."""
    kind, entry = req["kind"], req["entry"]
    decl = clist(str(d) for d in req["decl"])
    if entry == "ast":
        return "(RTree %s)" % cupdate(req["op"]), True
    if kind == "select":
        return "(RQuery %s)" % decl, True
    if kind in ("trail", "second", "unclosed", "keyword"):
        return "RGarbage", False
    if kind == "alias" and entry not in LEGACY:
        return "RGarbage", False
    return "(RText %s %s)" % (decl, cupdate(req["op"])), parser_accepts(req["op"])


# ---------------------------------------------------------------------------------------------
# comparison up to renaming of allocated blank nodes
# ---------------------------------------------------------------------------------------------
BN_RE = re.compile(r"^_:kolibrie-update-@(-?\d+)-(.*)$")


def mterm(v):
    """parsed Coq term -> lexical value"""
    if v[0] == "Qt":
        return ("qt", mterm(v[1]), mterm(v[2]), mterm(v[3]))
    if v[0] == "Iri":
        return lex(["I", v[1]])
    if v[0] == "Plain":
        return lex(["P", v[1]])
    return lex(["N", v[1], v[2]])


def mquads(rows):
    return sorted(((mterm(q[0]), mterm(q[1]), mterm(q[2]), None if q[3] is None else mterm(q[3][1])) for q in rows), key=repr)


class Matcher:
    """Keeps one injective renaming impl-name -> other-name of allocated blank nodes over a whole history.
    Terms are strings or nested tuples ("qt", s, p, o); blank nodes inside quoted triples are renamed as well."""

    def __init__(self, fixed, identity=()):
        self.fixed = set(fixed)
        self.map = {n: n for n in identity if n and n.startswith("_:")}
        self.budget_hit = False

    def prune(self, live):
        """Forget names that are no longer in the dataset (the Spec asks for freshness w.r.t. the dataset only)."""
        self.map = {a: b for a, b in self.map.items() if a in live}

    def ren(self, t):
        """renamable: a blank node that was not present initially (whatever the executor calls it)"""
        return t is not None and t not in self.fixed and t.startswith("_:")

    def names(self, quads):
        return {t for q in quads for x in q for t in atoms_of(x) if self.ren(t)}

    def match(self, A, B):
        """A, B: lists of tuples of terms.  True iff some extension of the renaming maps A onto B."""
        A, B = [tuple(x) for x in A], [tuple(x) for x in B]
        if len(A) != len(B):
            return False
        Bset = set(B)
        if len(set(A)) != len(A) or len(Bset) != len(B):
            return sorted(A, key=repr) == sorted(B, key=repr) and not self.names(A)
        a_new = sorted(t for t in self.names(A) if t not in self.map)
        used = set(self.map.values())
        b_new = sorted(t for t in self.names(B) if t not in used)
        if len(a_new) != len(b_new):
            return False
        qatoms = {q: set().union(*[atoms_of(x) for x in q]) for q in set(A) | Bset}

        def sig(name, quads):
            out = []
            for q in quads:
                if name in qatoms[q]:
                    out.append(tuple(subst(x, lambda t: "@" if t == name else ("*" if self.ren(t) else t)) for x in q))
            return sorted(out, key=repr)
        sa = {n: sig(n, A) for n in a_new}
        sb = {n: sig(n, B) for n in b_new}

        def label(n):
            m = BN_RE.match(n)
            return m.group(2) if m else None
        cand = {n: [m for m in b_new if (label(n) is None or label(m) is None or label(m) == label(n)) and sb[m] == sa[n]]
                for n in a_new}
        if any(not c for c in cand.values()):
            return False
        order = sorted(a_new, key=lambda n: len(cand[n]))
        touching = {n: [q for q in A if n in qatoms[q]] for n in a_new}
        trial = dict(self.map)
        taken = set(used)
        steps = [0]
        image = lambda q: tuple(subst(x, lambda t: trial.get(t, t) if self.ren(t) else t) for x in q)

        def ok_quads(n):
            for q in touching[n]:
                if all((not self.ren(t)) or t in trial for t in qatoms[q]):
                    if image(q) not in Bset:
                        return False
            return True

        def go(i):
            steps[0] += 1
            if steps[0] > 200000:
                self.budget_hit = True
                return True
            if i == len(order):
                return all(image(q) in Bset for q in A)
            n = order[i]
            for m in cand[n]:
                if m in taken:
                    continue
                trial[n] = m
                taken.add(m)
                if ok_quads(n) and go(i + 1):
                    return True
                del trial[n]
                taken.discard(m)
            return False
        if not a_new:
            return all(image(q) in Bset for q in A)
        if go(0):
            if not self.budget_hit:
                self.map = trial
            return True
        return False


def expected_outcome(entry, kind, acc, ins, dele):
    if entry == "vol":
        return ["rows", 0]
    if entry == "hu":
        if not acc:
            return ["hu", False]
        return ["hu", True] if kind == "alias" else ["hu", True, ins, dele]
    return ["ok", ins, dele] if acc else ["err"]


def norm_hu(text):
    """handle_update's answer: success or failure, and the two counts when it reports them."""
    nums = [int(x) for x in re.findall(r"\d+", text)]
    return ["hu", text.startswith("Update Successful")] + nums


def impl_outcome(r):
    if r[0] == "err":
        return ["err"]
    if r[0] == "rows":
        return ["rows", 0]
    if r[0] == "str":
        return norm_hu(r[1])
    return list(r)


# ---------------------------------------------------------------------------------------------
# generators
# ---------------------------------------------------------------------------------------------
I = lambda n: ["I", n]
P = lambda n: ["P", n]
SUBJ = [I(1), I(2), I(3), I(4)]
PRED = [I(5), I(6), I(7)]
GNAMES = [I(8), I(9), P(3)]
OBJ = SUBJ + [P(1), P(2), P(3), I(8), P(142)]
BORDER = [I(30), I(31), I(32), I(33), P(30), P(31), P(32), P(33), P(34), P(35)]
VARS = [1, 2, 3, 4, 5]
Q = lambda a, b, c: ["Q", a, b, c]
QPOOL = [Q(I(1), I(5), I(2)), Q(I(2), I(6), P(1)), Q(P(1), I(5), I(2)), Q(I(1), P(2), I(3)),
         Q(["N", 0, 1], I(5), Q(I(1), I(5), I(2)))]


def gen_init(rng):
    n = rng.choice([0, 1, 2, 3, 4, 5, 6, 8, 10])
    quads, seeds = [], []
    bns = [["N", 0, 1], ["N", 0, 2]]
    # names the allocator will want to use: present in the dictionary only, or also in the dataset
    for _ in range(rng.choice([0, 0, 1, 2, 4])):
        seeds.append(["N", rng.randint(1, 8), rng.choice([1, 2])])
    for _ in range(n):
        s = rng.choice(SUBJ + SUBJ + bns + [P(1)] + seeds[:1]) if rng.random() < 0.92 else rng.choice(QPOOL)
        p = rng.choice(PRED + PRED + [I(0), P(2)])
        o = rng.choice(OBJ + bns + seeds[:2]) if rng.random() < 0.8 else rng.choice(BORDER + QPOOL)
        g = None if rng.random() < 0.55 else rng.choice(GNAMES)
        quads.append([s, p, o, g])
    graphs = [g for g in GNAMES + [I(10)] if rng.random() < 0.3]
    dictseed = [s for s in seeds if rng.random() < 0.7] + [["N", rng.randint(1, 6), 1] for _ in range(rng.choice([0, 0, 1, 3]))]
    return quads, graphs, dictseed


def gen_where(rng):
    def pt(pos, vs, nest=True):
        if nest and pos in ("s", "o") and rng.random() < 0.04:
            return ["Q", pt("s", vs, False), pt("p", vs, False), pt("o", vs, False)]
        if rng.random() < 0.62:
            return ["V", rng.choice(vs)]
        pool = {"s": SUBJ + [P(1)], "p": PRED + [I(0)], "o": OBJ}[pos]
        return ["C", rng.choice(pool)]

    def join():
        blocks = []
        vs = rng.sample(VARS, rng.choice([3, 4, 5]))
        for _ in range(rng.choice([1, 1, 1, 2, 2, 3])):
            k = rng.random()
            scope = None if k < 0.5 else (["C", rng.choice(GNAMES)] if k < 0.72 else ["V", rng.choice(vs)])
            ntp = rng.choice([1, 1, 1, 2]) if scope is None or rng.random() < 0.9 else 0
            if scope is None and ntp == 0:
                ntp = 1
            blocks.append([scope, [[pt("s", vs), pt("p", vs), pt("o", vs)] for _ in range(ntp)]])
        if rng.random() < 0.10:
            # VALUES over one variable; rows are drawn with replacement, so repeated rows (duplicate solutions) are common
            rows = [rng.choice(SUBJ[:2] + [P(1), I(8)]) for _ in range(rng.choice([2, 2, 3]))]
            blocks.insert(rng.randrange(len(blocks) + 1), [["VALS", rng.choice(vs), rows], []])
        return blocks

    def overlapping(j):
        """a second UNION branch binding the same variables: the same join, or the same with one constant predicate or
        one graph scope changed (same triple in two graphs) - identical solutions in both branches are likely"""
        j2 = copy.deepcopy(j)
        k2 = rng.random()
        consts = [(b, tp) for b in j2 for tp in b[1] if tp[1][0] == "C"]
        scoped = [b for b in j2 if b[0] is not None and b[0][0] == "C"]
        if k2 < 0.4 and consts:
            rng.choice(consts)[1][1] = ["C", rng.choice(PRED)]
        elif k2 < 0.6 and scoped:
            rng.choice(scoped)[0] = ["C", rng.choice(GNAMES)]
        return j2
    k = rng.random()
    if k < 0.06:
        return [[]]                       # the empty group: one empty solution
    if k < 0.12:
        return [join(), join()]           # UNION of unrelated branches
    if k < 0.22:
        j = join()
        return [j, overlapping(j)] + ([overlapping(j)] if rng.random() < 0.2 else [])   # UNION with duplicate solutions
    return [join()]


def pt_vars(p):
    if p[0] == "V":
        return [p[1]]
    if p[0] == "Q":
        return pt_vars(p[1]) + pt_vars(p[2]) + pt_vars(p[3])
    return []


def where_vars(w):
    vs = []
    for j in w:
        for scope, tps in j:
            if scope is not None and scope[0] in ("V", "VALS"):
                vs.append(scope[1])
            for tp in tps:
                for p in tp:
                    vs += pt_vars(p)
    return sorted(set(vs))


def gen_template(rng, vs, insert, kw_a=False, allow_var=True):
    def tt(pos, nest=True):
        if nest and pos in ("s", "o") and rng.random() < 0.08:
            inner_p = ["A"] if (kw_a and rng.random() < 0.4) else tt("p", False)
            return ["T", tt("s", False), inner_p, tt("o", False)]
        k = rng.random()
        if allow_var and vs and k < 0.55:
            return ["V", rng.choice(vs)]
        if allow_var and k < 0.60:
            return ["V", 9]               # never bound
        if insert and pos in ("s", "o") and k < 0.72:
            return ["B", rng.choice([1, 1, 2])]
        pool = {"s": SUBJ + [P(1)], "p": PRED, "o": OBJ}[pos]
        if rng.random() < 0.06:
            pool = BORDER
        return ["C", rng.choice(pool)]
    p = tt("p")
    if kw_a and rng.random() < 0.6:
        p = ["A"]
    k = rng.random()
    if k < 0.5:
        g = None
    elif allow_var and vs and k < 0.72:
        g = ["V", rng.choice(vs)]
    else:
        g = ["C", rng.choice(GNAMES + [I(10)])]
    return [tt("s"), p, tt("o"), g]


def gen_op(rng, kw_a=False):
    k = rng.random()
    nq = lambda: rng.choice([0, 1, 1, 1, 2, 2, 2, 3])
    if k < 0.20:
        return {"form": "ID", "del": [], "ins": [gen_template(rng, [], True, kw_a, False) for _ in range(nq())], "where": [[]]}
    if k < 0.30:
        return {"form": "DD", "del": [gen_template(rng, [], False, kw_a, False) for _ in range(nq())], "ins": [], "where": [[]]}
    if k < 0.38:
        dl = [gen_template(rng, VARS[:3], False, kw_a) for _ in range(rng.choice([1, 1, 2]))]
        return {"form": "DWS", "del": dl, "ins": [], "where": short_where(dl)}
    w = gen_where(rng)
    vs = where_vars(w)
    dup = len(w) > 1 or any(b[0] is not None and b[0][0] == "VALS" for j in w for b in j)
    if dup and vs and rng.random() < 0.5:
        # one blank node per solution, also per repeated solution
        ins = [[["B", 1], ["C", rng.choice(PRED)], ["V", rng.choice(vs)], None]]
        if rng.random() < 0.4:
            ins.append([["V", rng.choice(vs)], ["C", rng.choice(PRED)], ["B", rng.choice([1, 2])], rng.choice([None, ["C", rng.choice(GNAMES)]])])
        form = rng.choice(["IW", "IW", "DIW"])
        dl = [gen_template(rng, vs, False, kw_a)] if form == "DIW" else []
        return {"form": form, "del": dl, "ins": ins, "where": w}
    if k < 0.50:
        # self-referential shapes: templates are the WHERE patterns themselves, with positions permuted for INSERT
        def as_tt(p):
            return ["T", as_tt(p[1]), as_tt(p[2]), as_tt(p[3])] if p[0] == "Q" else list(p)
        pats = [(sc, [as_tt(x) for x in tp]) for j in w[:1] for sc, tps in j for tp in tps]
        if pats:
            dl = [[list(tp[0]), list(tp[1]), list(tp[2]), sc] for sc, tp in pats]
            perm = rng.choice([(2, 1, 0), (0, 1, 2), (0, 1, 0), (2, 1, 2)])
            ins = []
            for sc, tp in pats:
                g2 = rng.choice([sc, sc, None, ["C", rng.choice(GNAMES)]])
                ins.append([list(tp[perm[0]]), list(tp[1]), list(tp[perm[2]]), g2])
            form = rng.choice(["DIW", "DIW", "DW", "IW"])
            return {"form": form, "del": dl if form != "IW" else [], "ins": ins if form != "DW" else [], "where": w}
    if k < 0.68:
        return {"form": "IW", "del": [], "ins": [gen_template(rng, vs, True, kw_a) for _ in range(nq())], "where": w}
    if k < 0.80:
        return {"form": "DW", "del": [gen_template(rng, vs, False, kw_a) for _ in range(nq())], "ins": [], "where": w}
    return {"form": "DIW", "del": [gen_template(rng, vs, False, kw_a) for _ in range(nq())],
            "ins": [gen_template(rng, vs, True, kw_a) for _ in range(nq())], "where": w}


def gen_request(rng, kw_a=False):
    op = gen_op(rng, kw_a)
    entry = rng.choice(["xu"] * 9 + ["su"] * 3 + ["hu"] * 3 + ["vol"] * 2 + ["ast"] * 3)
    decl = [d for d in (1, 2, 3) if rng.random() < (0.25 if d == 1 else 0.05)]
    kind = "ok"
    k = rng.random()
    if entry == "ast":
        decl = []
        if k < 0.35 and op["del"]:
            # a blank node in a DELETE template (maybe behind an unbound variable, so never reached)
            q = rng.choice(op["del"])
            q[rng.choice([0, 2])] = ["B", 1]
            if rng.random() < 0.3:
                q[0] = ["V", 9]
        elif k < 0.5 and op["ins"]:
            rng.choice(op["ins"])[3] = ["X"]
        elif k < 0.6 and op["form"] in ("ID", "DD") and (op["ins"] or op["del"]):
            (op["ins"] or op["del"])[0][2] = ["V", 1]
        if op["form"] == "DWS":
            op["where"] = short_where(op["del"])
        return {"op": op, "entry": entry, "decl": decl, "kind": kind}
    if k < 0.05:
        return {"op": None, "entry": entry, "decl": decl, "kind": "select"}
    if k < 0.17:
        kind = rng.choice(["trail", "second", "unclosed", "keyword"])
    elif k < 0.23 and op["form"] in ("ID", "DD"):
        kind = "alias"
    elif k < 0.28 and op["form"] in ("ID", "DD") and (op["ins"] or op["del"]):
        pos = rng.choice([0, 2, 3])
        (op["ins"] or op["del"])[0][pos] = ["V", 1]                    # a variable in a DATA block (also as graph name)
    elif k < 0.34 and op["del"]:
        rng.choice(op["del"])[rng.choice([0, 2])] = ["B", 1]           # a blank node in DELETE
    if op["form"] == "DWS":
        op["where"] = short_where(op["del"])
    return {"op": op, "entry": entry, "decl": decl, "kind": kind}


def gen_case(rng, nmax=30, kw_a=False):
    init, graphs, seed = gen_init(rng)
    n = rng.choice([1, 2, 3, 5, 8, 12, 16, 20, 30])
    n = min(n, nmax)
    return {"init": init, "graphs": graphs, "seed": seed, "reqs": [gen_request(rng, kw_a) for _ in range(n)]}


# ---------------------------------------------------------------------------------------------
# running one batch of cases
# ---------------------------------------------------------------------------------------------
def prepare(case, rng):
    """Render the requests of a case: driver ops + Coq requests.  The text depends on which prefixes the
    model expects to be declared, which follows from the static outcome of the earlier requests."""
    ex_known = False
    ops, creqs = [], []
    for req in case["reqs"]:
        creq, parses = model_request(req)
        rr = Renderer(rng, ex_known or (1 in req["decl"]))
        if req["entry"] == "ast":
            op = req["op"]
            rr2 = Renderer(rng, ex_known)
            ops.append({"e": "ast", "form": op["form"], "del": rr2.lexemes(op["del"]), "ins": rr2.lexemes(op["ins"]),
                        "where": rr2.where(op["where"])})
        else:
            ops.append({"e": req["entry"], "t": req.get("text") or render_text(req, rr)})
        if parses and 1 in req["decl"]:
            ex_known = True
        creqs.append(creq)
    drv = {"init": [[lex(q[0]), lex(q[1]), lex(q[2]), None if q[3] is None else lex(q[3])] for q in case["init"]],
           "graphs": [lex(g) for g in case["graphs"]], "dict": [lex(s) for s in case["seed"]], "ops": ops}
    args = "%s %s %s" % (clist(cquad(q) for q in case["init"]), clist(cterm(g) for g in case["graphs"]),
                         clist(cterm(s) for s in case["seed"]))
    return drv, args, creqs


def evaluate(ctx, binpath, cases, stream, report=True):
    """Returns per case: None (agreement) or a dict describing the first disagreement."""
    preps = [prepare(c, ctx.rng) for c in cases]
    impl = ctx.run_impl(binpath, [p[0] for p in preps])
    # the Spec needs to know which operation trees the executor accepted (RTree requests only)
    exprs = []
    for c, (drv, args, creqs), im in zip(cases, preps, impl):
        flags = []
        for k, req in enumerate(c["reqs"]):
            ok = False
            if im and "steps" in im and k + 1 < len(im["steps"]):
                ok = im["steps"][k + 1]["r"][0] == "ok"
            flags.append(ok)
        exprs.append("(model_run %s %s, spec_run %s %s)" % (
            args, clist(creqs), args, clist("(%s, %s)" % (cr, "true" if f else "false") for cr, f in zip(creqs, flags))))
    model = ctx.run_model("Update", ["KV.Update.Spec", "KV.Update.Model", "KV.Update.Bgp", "KV.Update.Run"], exprs,
                          preamble="Open Scope N_scope.")
    verdicts = []
    failures = []
    st = {"cases": len(cases), "steps": 0, "accepted": 0, "rejected": 0, "changed": 0,
          "impl_model_mismatches": 0, "spec_violations": 0, "bnode_steps": 0, "quoted_triple_steps": 0, "keyword_a_steps": 0, "multi_branch_or_values_with_bnode_insertions": 0,
          "iso_budget_hit": 0}
    forms, kinds, entries = {}, {}, {}
    for c, (drv, args, creqs), im, mo in zip(cases, preps, impl, model):
        if report:
            ctx.count()
        texts = [o.get("t") or o for o in drv["ops"]]
        if isinstance(mo, tuple) and mo and mo[0] == "ERROR":
            if report:
                ctx.broken("correspondence", stream, "model evaluation failed: %s" % (mo[1],), {"case": c, "texts": texts})
            verdicts.append({"what": "model-error"})
            continue
        if not im or "steps" not in im:
            v = {"what": "implementation panicked or died on an update history", "impl": im, "texts": texts}
            if report:
                ctx.violation({"case": c, "texts": texts}, v)
            st["spec_violations"] += 1
            verdicts.append(v)
            continue
        in_data = set()
        for x in [y for q in drv["init"] for y in q] + list(drv["graphs"]):
            in_data |= atoms_of(hx(x))
        seed_atoms = set()
        for x in drv["dict"]:
            seed_atoms |= atoms_of(hx(x))
        # model: allocated names avoid every dictionary entry (exact names for everything known initially);
        # Spec: allocated names avoid the terms of the dataset (identity on the initial dataset, forgotten once deleted)
        mm, ms = Matcher(in_data | seed_atoms), Matcher((), in_data)
        steps = im["steps"]
        verdict = None
        nontrivial = False
        prev = steps[0]
        # the initial state itself
        m_init_ok = True
        for k, req in enumerate(c["reqs"]):
            st["steps"] += 1
            cur = steps[k + 1]
            mrow, srow = mo[0][k], mo[1][k]
            mcode, mins, mdel, mq, mcat, mpfx = mrow[0], mrow[1], mrow[2], mquads(mrow[3]), sorted((mterm(t) for t in mrow[4]), key=repr), mrow[5]
            sacc, sins, sdel, sq, scat = srow[0], srow[1], srow[2], mquads(srow[3]), sorted((mterm(t) for t in srow[4]), key=repr)
            iq = [hx(q) for q in cur["q"]]
            ig = [hx(g) for g in cur["g"]]
            io = impl_outcome(cur["r"])
            f = req["op"]["form"] if req.get("op") else "-"
            forms[f] = forms.get(f, 0) + 1
            kinds[req["kind"]] = kinds.get(req["kind"], 0) + 1
            entries[req["entry"]] = entries.get(req["entry"], 0) + 1
            if cur["r"][0] == "panic":
                verdict = {"what": "panic", "step": k, "impl": cur["r"], "spec": True}
                break
            pq, pg = [hx(q) for q in prev["q"]], [hx(g) for g in prev["g"]]
            changed = (iq != pq or ig != pg)
            if io[0] in ("ok",) or (io[0] == "hu" and io[1]):
                st["accepted"] += 1
            elif io[0] != "rows":
                st["rejected"] += 1
            if changed:
                st["changed"] += 1
                if io[0] == "ok" and io[1] + io[2] > 0:
                    nontrivial = True
            if any(t.startswith("_:") for q in iq for x in q for t in atoms_of(x)):
                st["bnode_steps"] += 1
            if any(isinstance(x, tuple) for q in iq for x in q):
                st["quoted_triple_steps"] += 1
            if mcode == 0 and mins > 0 and req.get("op") and any(tq_has_bnode(q) for q in req["op"]["ins"]) and (
                    len(req["op"]["where"]) > 1 or any(b[0] is not None and b[0][0] == "VALS" for j in req["op"]["where"] for b in j)):
                st["multi_branch_or_values_with_bnode_insertions"] += 1
            if mcode == 0 and req.get("op") and any(kwa_in(q[0], False) or kwa_in(q[1], True) or kwa_in(q[2], False)
                                                    for q in req["op"]["del"] + req["op"]["ins"]):
                st["keyword_a_steps"] += 1
            # --- the Spec is the oracle (no known class: every contradiction is a violation)
            if True:  # noqa
                exp = expected_outcome(req["entry"], req["kind"], sacc, sins, sdel)
                bad = None
                if io != exp:
                    bad = "outcome"
                elif not sacc and req["entry"] != "vol" and changed:
                    bad = "a rejected request changed the dataset"
                elif not ms.match(iq, sq):
                    bad = "dataset"
                elif not ms.match([(g,) for g in ig], [(g,) for g in scat]):
                    bad = "catalog"
                if bad:
                    verdict = {"what": "the implementation contradicts the Spec (%s)" % bad, "step": k, "spec": True,
                               "request": texts[k], "entry": req["entry"], "impl_outcome": cur["r"], "spec_outcome": exp,
                               "impl_quads": cur["q"], "spec_quads": sq, "impl_graphs": ig, "spec_graphs": scat,
                               "before_quads": prev["q"], "before_graphs": prev["g"]}
                    break
                ms.prune({t for q in iq for x in q for t in atoms_of(x)} | {t for g in ig for t in atoms_of(g)})
            # --- correspondence with the model
            expm = expected_outcome(req["entry"], req["kind"], mcode == 0, mins, mdel)
            badm = None
            if io != expm:
                badm = "outcome"
            elif not mm.match(iq, mq):
                badm = "dataset"
            elif not mm.match([(g,) for g in ig], [(g,) for g in mcat]):
                badm = "catalog"
            elif sorted(cur["p"]) != sorted(PFX[d][0] for d in mpfx):
                badm = "prefixes"
            if badm:
                verdict = {"what": "implementation and model differ (%s) but the Spec oracle accepts the implementation" % badm,
                           "step": k, "spec": False, "request": texts[k], "entry": req["entry"], "impl_outcome": cur["r"],
                           "model_outcome": expm, "impl_quads": cur["q"], "model_quads": mq, "impl_graphs": ig,
                           "model_graphs": mcat, "impl_prefixes": cur["p"], "model_prefixes": mpfx}
                break
            prev = cur
        if mm.budget_hit or ms.budget_hit:
            st["iso_budget_hit"] += 1
        if verdict is None:
            if nontrivial and report:
                ctx.nontrivial((texts, drv["init"], drv["graphs"]))
        else:
            k = verdict["step"]
            small = {"init": c["init"], "graphs": c["graphs"], "seed": c["seed"],
                     "reqs": [dict(r, text=(texts[i] if isinstance(texts[i], str) else None)) for i, r in enumerate(c["reqs"][:k + 1])]}
            verdict["texts"] = texts[:k + 1]
            verdict["case"] = small
            if verdict["spec"]:
                st["spec_violations"] += 1
            else:
                st["impl_model_mismatches"] += 1
            if report:
                failures.append(verdict)
        verdicts.append(verdict)
    ctx.stream(stream, forms=forms, kinds=kinds, entries=entries, **st)
    if report:
        ctx.log("stream %s: %d cases, %d steps, %d spec violations, %d model mismatches" % (
            stream, st["cases"], st["steps"], st["spec_violations"], st["impl_model_mismatches"]))
    # report: the first failures are shrunk first (fewer requests, smaller initial dataset)
    for n, v in enumerate(failures):
        if n < 3 and stream != "replay":
            v = shrink(ctx, binpath, v)
        case = v.pop("case")
        if v["spec"]:
            ctx.violation({"case": case, "texts": v["texts"]}, v)
        else:
            ctx.broken("correspondence", stream, v["what"], {"case": case, "detail": v})
    return verdicts


def shrink(ctx, binpath, verdict, rounds=8):
    """Greedy one-at-a-time deletion of earlier requests and of initial quads / graphs / dictionary seeds while the
    same kind of failure (against the Spec, or against the model only) persists at the last request."""
    best = verdict
    for _ in range(rounds):
        case = best["case"]
        nreq = len(case["reqs"])
        later_uses_ex = lambda j: any("ex:" in json.dumps(r.get("text") or "") for r in case["reqs"][j + 1:])
        cands = []
        for j in range(nreq - 1):
            if 1 in case["reqs"][j]["decl"] and later_uses_ex(j):
                continue
            cands.append(dict(case, reqs=case["reqs"][:j] + case["reqs"][j + 1:]))
        for key in ("init", "graphs", "seed"):
            for j in range(len(case[key])):
                cands.append(dict(case, **{key: case[key][:j] + case[key][j + 1:]}))
        if not cands:
            break
        vs = evaluate(ctx, binpath, cands, "shrink", report=False)
        nxt = None
        for c, v in zip(cands, vs):
            if v and v.get("spec") == best["spec"] and "case" in v and v["step"] == len(c["reqs"]) - 1:
                nxt = v
                break
        if nxt is None:
            break
        best = nxt
    ctx.streams.pop("shrink", None)
    return best


# ---------------------------------------------------------------------------------------------
# exhaustive small scope: every ordered pair (triple in the thorough tier) of a catalogue of operations
# ---------------------------------------------------------------------------------------------
def catalogue():
    V = lambda n: ["V", n]
    C = lambda t: ["C", t]
    B = lambda l: ["B", l]
    w_all = [[[None, [[V(1), V(2), V(3)]]]]]
    w_p5 = [[[None, [[V(1), C(I(5)), V(3)]]]]]
    w_g = [[[V(4), [[V(1), V(2), V(3)]]]]]
    w_g8 = [[[C(I(8)), [[V(1), V(2), V(3)]]]]]
    mk = lambda form, d, i, w=None: {"form": form, "del": d, "ins": i, "where": w if w is not None else [[]]}
    ops = [
        mk("ID", [], [[C(I(1)), C(I(5)), C(I(3)), None]]),
        mk("ID", [], [[C(I(1)), C(I(5)), C(I(2)), None], [C(I(1)), C(I(5)), C(I(2)), None]]),     # duplicate in the block / existing
        mk("ID", [], [[C(I(3)), C(I(6)), C(P(1)), C(I(9))]]),
        mk("ID", [], [[B(1), C(I(5)), B(2), None], [B(1), C(I(6)), C(I(1)), C(I(8))]]),
        mk("DD", [[C(I(1)), C(I(5)), C(I(2)), None]], []),
        mk("DD", [[C(I(2)), C(I(6)), C(I(1)), C(I(8))], [C(I(4)), C(I(5)), C(I(4)), None]], []),
        mk("IW", [], [[V(1), V(2), V(3), C(I(9))]], w_all),
        mk("IW", [], [[V(3), C(I(6)), V(1), None]], w_p5),                                         # literal / blank subjects
        mk("IW", [], [[B(1), C(I(7)), V(1), None], [B(1), C(I(7)), B(2), V(4)]], w_g),
        mk("IW", [], [[V(1), V(2), V(3), V(3)]], w_p5),                                            # GRAPH ?o: graph name legality
        mk("IW", [], [[V(1), C(I(7)), V(9), None], [V(1), V(3), C(I(1)), None]], w_p5),            # unbound / illegal predicate
        mk("DW", [[V(1), V(2), V(3), None]], [], w_all),
        mk("DW", [[V(1), V(2), V(3), V(4)]], [], w_g),
        mk("DW", [[V(1), V(2), V(3), None]], [], w_g8),                                            # template names another graph
        mk("DIW", [[V(1), C(I(5)), V(3), None]], [[V(3), C(I(5)), V(1), None]], w_p5),             # swap
        mk("DIW", [[V(1), V(2), V(3), None]], [[V(1), V(2), V(3), None]], w_all),                  # delete and re-insert the same quads
        mk("DIW", [[V(1), V(2), V(3), V(4)]], [[V(1), V(2), V(3), None]], w_g),                    # move to the default graph
        mk("DIW", [[V(1), C(I(5)), V(3), None]], [[V(1), C(I(6)), B(1), None]], w_p5),
        mk("IW", [], [[B(1), C(I(7)), V(3), None]], w_p5 + w_p5),                                   # UNION of twice the same branch: duplicate solutions
        mk("IW", [], [[B(1), C(I(6)), V(1), None], [V(1), C(I(6)), B(2), C(I(9))]],
           [[[["VALS", 1, [I(1), I(1), I(2)]], []]]]),                                              # VALUES with a repeated row
        mk("DWS", [[V(1), C(I(5)), V(3), None]], []),
        mk("DWS", [[V(1), V(2), V(3), V(4)], [V(1), C(I(5)), V(5), None]], []),
        mk("IW", [], [[["T", V(1), C(I(5)), V(3)], C(I(7)), B(1), None], [V(3), C(I(7)), ["T", V(3), C(I(6)), B(1)], None]], w_p5),  # quoted templates
        mk("DWS", [[["T", V(1), V(2), V(3)], C(I(7)), V(4), None]], []),
        mk("ID", [], [[C(I(1)), ["A"], C(I(2)), None], [C(I(1)), C(I(5)), ["T", C(I(2)), ["A"], C(I(3))], None]]),   # keyword `a` = rdf:type
        mk("DWS", [[V(1), ["A"], V(3), None]], []),
        mk("ID", [], [[V(1), C(I(5)), C(I(3)), None]]),                                            # rejected: variable in DATA
        mk("DW", [[B(1), C(I(5)), V(3), None]], [], w_p5),                                         # rejected: blank node in DELETE
    ]
    reqs = [{"op": o, "entry": "xu", "decl": [], "kind": "ok"} for o in ops]
    reqs.append({"op": ops[0], "entry": "xu", "decl": [], "kind": "trail"})
    reqs.append({"op": ops[4], "entry": "hu", "decl": [], "kind": "alias"})
    reqs.append({"op": ops[15], "entry": "vol", "decl": [], "kind": "ok"})
    reqs.append({"op": mk("DW", [[C(I(1)), C(I(5)), C(I(2)), None], [B(1), C(I(5)), C(I(2)), None]], [], [[]]), "entry": "ast", "decl": [], "kind": "ok"})
    reqs.append({"op": mk("DIW", [[C(I(1)), C(I(5)), C(I(2)), None]], [[C(I(1)), C(I(5)), C(I(4)), ["X"]]], [[]]), "entry": "ast", "decl": [], "kind": "ok"})
    return reqs


def legality_battery():
    """Every kind of bound value x every variable position of a template: the value is bound by the WHERE clause
    from the object position of a quad and used as subject, predicate, graph name (and object) of an INSERT template;
    the dataset makes some plain values legal (already a subject / a predicate / an existing graph)."""
    V = lambda n: ["V", n]
    C = lambda t: ["C", t]
    values = BORDER + [I(1), I(8), P(1), P(2), P(3), P(4), P(142), ["N", 0, 1], ["N", 3, 1]] + QPOOL + [
        Q(P(30), I(5), I(2)), Q(I(30), I(31), P(31)), Q(I(1), I(5), Q(P(4), I(5), I(2)))]
    cases = []
    for ctxno, extra in enumerate([[], [[P(1), I(5), I(2), None], [I(2), P(2), I(2), None], [I(2), I(5), I(2), P(3)],
                                        [P(30), I(5), I(2), None], [I(2), P(32), I(2), I(9)], [I(2), I(5), I(2), P(31)]]]):
        for val in values:
            init = [[I(1), I(6), val, None]] + extra
            w = [[[None, [[C(I(1)), C(I(6)), V(1)]]]]]
            ins = [[V(1), C(I(7)), C(I(3)), None], [C(I(3)), V(1), C(I(3)), None], [C(I(3)), C(I(7)), C(I(3)), V(1)],
                   [C(I(4)), C(I(7)), V(1), None]]
            for q in ins:
                cases.append({"init": init, "graphs": [P(33)] if ctxno else [], "seed": [],
                              "reqs": [{"op": {"form": "IW", "del": [], "ins": [q], "where": w}, "entry": "xu", "decl": [], "kind": "ok"}]})
    return cases


EX_INIT = {"init": [[I(1), I(5), I(2), None], [I(1), I(5), P(1), None], [I(2), I(6), I(1), I(8)], [["N", 0, 1], I(5), I(3), None],
                    [I(2), I(5), I(8), None]],
           "graphs": [I(9)], "seed": [["N", 2, 1]]}


def load_corpus():
    d = os.path.join(vf.VERIF, "corpus", "C03")
    out = []
    if os.path.isdir(d):
        for fn in sorted(os.listdir(d)):
            if fn.endswith(".json"):
                j = json.load(open(os.path.join(d, fn)))
                out += j if isinstance(j, list) else [j]
    return out


TRUSTED = [
    "Coq 8.16.1 kernel; vm_compute for running the model and the Spec in the correspondence check",
    "hand-written Gallina model coq/Update/Model.v of execute_query.rs (update executor) and of the insert_quad/delete_quad results of dataset_index.rs on an abstract quad set + catalog (the index layer is C04)",
    "coq/Update/Bgp.v: the BGP/GRAPH/UNION evaluator used to instantiate eval_where when the model and the Spec are executed (the theorems hold for every evaluator); the real WHERE engine is property C01",
    "correspondence check: harness/src/bin/c03.rs, checks/c03.py (generators, SPARQL rendering, the parser's accept/reject decision for malformed text, comparison up to renaming of allocated blank nodes)",
    "dictionary identifiers abstracted to the lexical terms they denote (injective dictionary: C15); the untyped dictionary's conflation of `<x>` and \"x\" is part of the term model",
]
ASSUMPTIONS = [
    "every identifier stored in the dataset is decodable by the dictionary (true for every state built through the string APIs)",
    "BTreeSet iteration order is unobservable (Proofs.apply_mutations_perm: the result does not depend on it)",
    "the process-global blank-node counter is not shared with concurrently running updates (single-threaded driver)",
    "literal language tags / datatypes are dropped by the dictionary and are outside the term model",
]


def harness(ctx):
    """The driver built against /repo; VERIF_C03_BIN (mutation self-test in a private copy of the repository,
    see notes/C03.md) substitutes a driver built elsewhere."""
    alt = os.environ.get("VERIF_C03_BIN")
    if alt:
        ctx.log("using the driver %s instead of building against %s" % (alt, vf.REPO))
        return alt
    return ctx.harness("c03")


def run(ctx):
    ctx.coq("Update", "C03.v")
    binpath = harness(ctx)
    # corpus first
    corpus = load_corpus()
    if corpus:
        evaluate(ctx, binpath, corpus, "corpus")
    # exhaustive small scope
    cat = catalogue()
    L = 3 if ctx.thorough else 2
    ex = []
    for hist in itertools.product(range(len(cat)), repeat=L):
        ex.append(dict(copy.deepcopy(EX_INIT), reqs=[copy.deepcopy(cat[i]) for i in hist]))
    ctx.sample({"exhaustive_example": [r["kind"] + ":" + r["op"]["form"] for r in ex[len(ex) // 3]["reqs"]]})
    evaluate(ctx, binpath, ex, "exhaustive_len%d" % L)
    ctx.coverage["exhaustive"] = True
    ctx.coverage["exhaustive_scope"] = "all %d^%d histories of length %d over a catalogue of %d requests (every form, rejected and malformed requests, the executor hook) on a fixed 5-quad dataset" % (len(cat), L, L, len(cat))
    lb = legality_battery()
    evaluate(ctx, binpath, lb, "legality_exhaustive")
    ctx.coverage["exhaustive_scope"] += "; legality battery: %d single-step cases (19 kinds of bound value incl. lexical forms at the border of the IRI test x 4 template positions x 2 datasets)" % len(lb)
    # random histories
    n = 3000 if ctx.thorough else 300
    rnd = [gen_case(ctx.rng) for _ in range(n)]
    v = evaluate(ctx, binpath, rnd, "random")
    prep0 = prepare(rnd[0], ctx.rng)[0]
    ctx.sample({"init": prep0["init"], "requests": [o.get("t", o) for o in prep0["ops"]][:6]})
    # histories rich in the keyword `a` in predicate position of templates, also inside quoted triples (the repaired finding
    # C03-template-keyword-a): a recurrence is a violation
    n2 = 600 if ctx.thorough else 80
    kwa = [gen_case(ctx.rng, nmax=12, kw_a=True) for _ in range(n2)]
    evaluate(ctx, binpath, kwa, "random_keyword_a")
    ctx.finish(level="proof", rule=PROP_RULE, trusted_base=TRUSTED, assumptions=ASSUMPTIONS)


def replay(ctx):
    binpath = harness(ctx)
    rp = ctx.replay
    case = None
    if "case" in rp and isinstance(rp["case"], dict):
        case = rp["case"].get("case", rp["case"])
    if case is None and rp.get("broken"):
        case = (rp["broken"][0].get("case") or {}).get("case")
    if case is None:
        ctx.log("replay file carries no case")
        ctx.finish(level="proof", rule=PROP_RULE)
    evaluate(ctx, binpath, [case], "replay")
    ctx.finish(level="proof", rule=PROP_RULE, trusted_base=TRUSTED, assumptions=ASSUMPTIONS)
