"""C04 - every read path of the store agrees with the set of quads written (DESIGN.md section 7, C04).

Theorems: coq/Store/C04.v (refinement of the four-index model to the abstract quad set, for every history).
Correspondence: the real DatasetIndex / SparqlDatabase::build_all_indexes / QueryBuilder against the Gallina
model (`KV.Store.Run.model_run`) on the same histories; the Spec (`spec_run`) is the oracle for violations.

Insert/Delete are performed through one of three entry points per case (`via`): "index" (DatasetIndex),
"db" (SparqlDatabase::add_quad/delete_quad) or "parts" (the string-level SparqlDatabase::add_triple_parts /
delete_triple_parts for the default graph and add_quad_parts for named graphs; terms are the strings
"t<i>", pre-encoded in order so that id i <-> "t<i>").  The QueryBuilder observers QB (get_triples),
QBDec (get_decoded_triples) and QBCount (count) use the same strings; `kinds` picks exact / contains /
starts-with / ends-with filters, which coincide on the universe t0..t9.
"""
import itertools
import os
import vf

VIAS = ["index", "db", "parts"]
QB_KINDS = ["eee", "cse", "sne", "nec", "eeed", "ncs", "ssn"]

PROP_RULE = ("cases are histories of store operations (mutators + observers); exhaustive scope: every mutator "
             "history of the stated length over quads {1,2}x{1,2}x{1} in graphs {default,g0,g1} with the full observer "
             "battery after every step; large-graph scope: 15..1025 (thorough: ..4097) quads in one default or named graph, "
             "sizes straddling powers of two and multiples of ten, then ClearG / Drop / delete-all / Rebuild / ClearAll, re-insertion "
             "and a second clear, with all 8 lookup shapes and the cross-graph read paths observed before and after; random "
             "scope: 40-step histories over 4 terms and 4 graphs. A case is "
             "non-trivial when at least one observer output in it is a non-empty quad/graph list and at least one "
             "mutator returned true (or an add_triple_parts insert, which returns nothing, was performed); distinct by "
             "the entry point (index/db/parts) plus the rendered history. Observers include the QueryBuilder read path "
             "(get_triples, get_decoded_triples, count; exact/contains/starts/ends filters).")


# ---- op encodings -----------------------------------------------------------------------------
def cq(q):
    return "(%d%%N, %d%%N, %d%%N, %d%%N)" % tuple(q)


def copt(x):
    return "None" if x is None else "(Some %d%%N)" % x


def clist(l):
    return "[" + "; ".join("%d%%N" % x for x in l) + "]"


def op_coq(op):
    t = op[0]
    if t == "I":
        return "Insert %s" % cq(op[1:5])
    if t == "D":
        return "Delete %s" % cq(op[1:5])
    if t in ("Create", "Drop", "ClearG", "GExists", "LenG"):
        return "%s %d%%N" % (t, op[1])
    if t in ("ClearAll", "Rebuild", "NamedGraphs", "Graphs", "AllQuads"):
        return t
    if t == "Contains":
        return "Contains %s" % cq(op[1:5])
    if t == "QGraph":
        return "QGraph %d%%N %s %s %s" % (op[1], copt(op[2]), copt(op[3]), copt(op[4]))
    if t == "QNamed":
        vis = "None" if op[4] is None else "(Some %s)" % clist(op[4])
        return "QNamed %s %s %s %s" % (copt(op[1]), copt(op[2]), copt(op[3]), vis)
    if t == "QMerged":
        return "QMerged %s %s %s %s" % (clist(op[1]), copt(op[2]), copt(op[3]), copt(op[4]))
    if t == "QQuads":
        return "QQuads %s %s %s %s" % (copt(op[1]), copt(op[2]), copt(op[3]), copt(op[4]))
    if t == "GraphsFor":
        return "GraphsFor %d%%N %d%%N %d%%N" % (op[1], op[2], op[3])
    if t in ("QB", "QBDec"):   # two renderings of the same read path
        return "QB %s %s %s" % (copt(op[1]), copt(op[2]), copt(op[3]))
    if t == "QBCount":
        return "QBCount %s %s %s" % (copt(op[1]), copt(op[2]), copt(op[3]))
    raise ValueError(t)


def ops_coq(ops):
    return "[" + "; ".join(op_coq(o) for o in ops) + "]"


def canon_model(v):
    """Coq (tag, rows) -> the driver's JSON shape."""
    tag, rows = v
    if tag == 0:
        return {"unit": True}
    if tag == 1:
        return {"bool": rows[0][0] == 1}
    if tag == 2:
        return {"quads": sorted([list(r) for r in rows])}
    if tag == 3:
        return {"graphs": sorted(rows[0])}
    if tag == 4:
        return {"num": rows[0][0]}
    raise ValueError(v)


def via_of(case):
    return case.get("via") or ("db" if case.get("via_db") else "index")


def own_output(case, op, expected):
    """What the entry point used for `op` lets us observe of the operation's own result:
    add_triple_parts returns nothing."""
    if via_of(case) == "parts" and op[0] == "I" and op[4] == 0:
        return {"unit": True}
    return expected


def spec_agrees(impl, spec):
    """`out_agree` of Spec.v on canonical forms: sets equal and no repetition (sorted lists equal)."""
    return impl == spec


# ---- generators -------------------------------------------------------------------------------
def battery(S, P, O, G):
    b = []
    opts = lambda xs: [None] + list(xs)
    for g in G:
        for s in opts(S):
            for p in opts(P):
                for o in opts(O):
                    b.append(["QGraph", g, s, p, o])
    for s in opts(S[:1]):
        for p in opts(P[:1]):
            for o in opts(O[:1]):
                b.append(["QNamed", s, p, o, None])
                b.append(["QNamed", s, p, o, [G[1]]])
                b.append(["QMerged", [G[0], G[1], G[2]], s, p, o])
                b.append(["QQuads", s, p, o, None])
    b.append(["QNamed", S[0], P[-1], O[0], [G[2], G[0]]])
    b.append(["QMerged", [G[1], G[2]], None, None, None])
    b.append(["QMerged", [], None, None, None])
    b.append(["QQuads", None, None, None, G[1]])
    k = 0
    for s in opts(S[:1]):
        for p in opts(P):
            for o in opts(O):
                b.append(["QB", s, p, o, QB_KINDS[k % len(QB_KINDS)]])
                k += 1
    b.append(["QB", S[-1], None, None, "eee"])
    b.append(["QBDec", None, None, None, "eee"])
    b.append(["QBDec", S[0], None, O[0], "nes"])
    b.append(["QBDec", None, P[-1], None, "ece"])
    b.append(["QBCount", None, None, None, "eee"])
    b.append(["QBCount", S[-1], P[0], None, "sc"])
    b.append(["QBCount", None, None, O[0], "een"])
    for g in G + [G[-1] + 1]:
        b.append(["GExists", g])
        b.append(["LenG", g])
    b += [["NamedGraphs"], ["Graphs"], ["AllQuads"]]
    for s in S:
        for p in P:
            b.append(["GraphsFor", s, p, O[0]])
            b.append(["Contains", s, p, O[0], G[1]])
    return b


def mutators(S, P, O, G):
    m = []
    for s in S:
        for p in P:
            for o in O:
                for g in G:
                    m.append(["I", s, p, o, g])
                    m.append(["D", s, p, o, g])
    for g in G:
        if g != 0:
            m.append(["Create", g])
        m.append(["Drop", g])
        m.append(["ClearG", g])
    m.append(["ClearAll"])
    m.append(["Rebuild"])
    return m


def random_history(rng, n):
    T = [1, 2, 3, 4]
    G = [0, 1, 2, 3]
    ops = []
    live = []
    for _ in range(n):
        r = rng.random()
        o = lambda: rng.choice([None] + T)
        if r < 0.30:
            q = [rng.choice(T), rng.choice(T[:2]), rng.choice(T), rng.choice(G)]
            if live and rng.random() < 0.3:   # same triple in another graph
                q = live[-1][:3] + [rng.choice(G)]
            ops.append(["I"] + q)
            live.append(q)
        elif r < 0.45:
            if live and rng.random() < 0.8:
                q = rng.choice(live)
            else:
                q = [rng.choice(T), rng.choice(T[:2]), rng.choice(T), rng.choice(G)]
            ops.append(["D"] + q)
        elif r < 0.50:
            ops.append([rng.choice(["Create", "Drop", "ClearG"]), rng.choice(G + [4])])
        elif r < 0.52:
            ops.append([rng.choice(["ClearAll", "Rebuild", "Rebuild"])])
        elif r < 0.64:
            ops.append(["QGraph", rng.choice(G), o(), rng.choice([None, 1, 2]), o()])
        elif r < 0.70:
            ops.append([rng.choice(["QB", "QB", "QBDec", "QBCount"]), o(), rng.choice([None, 1, 2]), o(),
                        rng.choice(QB_KINDS)])
        elif r < 0.78:
            vis = rng.choice([None, [1], [2, 3], [0, 1, 2, 3, 4], []])
            ops.append(["QNamed", o(), rng.choice([None, 1, 2]), o(), vis])
        elif r < 0.84:
            gs = rng.choice([[0], [1, 2], [0, 1, 2, 3], [], [3, 3, 1]])
            ops.append(["QMerged", gs, o(), rng.choice([None, 1, 2]), o()])
        elif r < 0.88:
            ops.append(["QQuads", o(), rng.choice([None, 1, 2]), o(), rng.choice([None] + G)])
        elif r < 0.92:
            ops.append([rng.choice(["GExists", "LenG"]), rng.choice(G + [4])])
        elif r < 0.96:
            ops.append([rng.choice(["NamedGraphs", "Graphs", "AllQuads"])])
        elif live:
            q = rng.choice(live)
            ops.append(rng.choice([["GraphsFor"] + q[:3], ["Contains"] + q]))
        else:
            ops.append(["Graphs"])
    return ops


# ---- large graphs -------------------------------------------------------------------------------
# Sizes straddle powers of two and multiples of ten: size-gated code paths (bulk clear, rehash, batch
# thresholds) are unreachable from the small universes above.
LARGE_FINALES = ["ClearG", "Drop", "DeleteAll", "Rebuild", "ClearAll"]


def block_quads(n, g, perm):
    """n distinct quads in graph g over a cube of side ceil(n^(1/3)); all three positions take several values."""
    a = 1
    while a * a * a < n:
        a += 1
    return [[perm[i % a], perm[(i // a) % a], perm[i // (a * a)], g] for i in range(n)]


def side(n):
    a = 1
    while a * a * a < n:
        a += 1
    return a


def obs_block(g, q0, q1, other):
    """Observers on graph g: all 8 shapes with the terms of q0, the 7 bound shapes of q1, the cross-graph
    read paths in the object-/subject-/predicate-led shapes, membership and graph listing."""
    b = []
    for s in (None, q0[0]):
        for p in (None, q0[1]):
            for o in (None, q0[2]):
                b.append(["QGraph", g, s, p, o])
                if g == 0:
                    b.append(["QB", s, p, o, "eee"])
    for s in (None, q1[0]):
        for p in (None, q1[1]):
            for o in (None, q1[2]):
                if (s, p, o) != (None, None, None):
                    b.append(["QGraph", g, s, p, o])
    vis = sorted({g, other} - {0}) or [other]
    b += [["QNamed", None, None, q0[2], None], ["QNamed", q0[0], None, q0[2], vis], ["QNamed", None, q1[1], None, None],
          ["QNamed", q1[0], None, None, vis], ["QNamed", q0[0], q0[1], q0[2], None],
          ["QQuads", None, None, q0[2], None], ["QQuads", q0[0], None, q0[2], g], ["QQuads", None, q1[1], None, None],
          ["QQuads", q1[0], None, None, g], ["QQuads", None, None, q1[2], g],
          ["QMerged", [g, other], None, None, q0[2]], ["QMerged", [g], q0[0], None, None], ["QMerged", [other, g], None, q1[1], q1[2]],
          ["LenG", g], ["GExists", g], ["Graphs"], ["NamedGraphs"], ["AllQuads"],
          ["Contains"] + q0[:3] + [g], ["Contains"] + q1[:3] + [g], ["GraphsFor"] + q0[:3], ["GraphsFor"] + q1[:3]]
    if g == 0:
        b += [["QBCount", None, None, None, "eee"], ["QBDec", None, None, q0[2], "eee"], ["QBCount", q1[0], None, q1[2], "eee"]]
    return b


def large_history(n, g, finale, rng):
    a = side(n)
    nterms = max(10, a + 1)
    perm = list(range(nterms))
    rng.shuffle(perm)
    quads = block_quads(n, g, perm)
    other = 1 if g != 1 else 3
    q0, q1 = quads[n // 2], quads[-1]
    fresh = [perm[a], q0[1], q0[2], g]           # a subject that does not occur in the block
    obs = obs_block(g, q0, q1, other)
    ops = [["I"] + quads[0][:3] + [other], ["I"] + q0[:3] + [other], ["I"] + q0[:3] + [0 if g != 0 else 2]]
    ops += [["I"] + q for q in quads]
    ops += obs
    second = "Drop"
    if finale == "ClearG":
        ops += [["ClearG", g]]
    elif finale == "Drop":
        ops += [["Drop", g]]
        second = "ClearG"
    elif finale == "DeleteAll":
        order = quads[::-1] if n % 2 else quads[1::2] + quads[0::2]
        ops += [["D"] + q for q in order]
    elif finale == "Rebuild":
        ops += [["Rebuild"]] + obs + [["ClearG", g]]
    elif finale == "ClearAll":
        ops += [["ClearAll"]]
    ops += obs
    if g != 0:
        ops += [["Create", g], ["GExists", g]]
    ops += [["I"] + quads[0], ["I"] + fresh, ["I"] + q1, ["I"] + quads[0]]
    ops += obs + [["QGraph", g, fresh[0], None, None], ["QGraph", g, None, None, fresh[2]]]
    ops += [[second, g]] + obs + [["Rebuild"]] + obs[:8]
    return {"ops": ops, "battery": [], "nterms": nterms, "size": n, "finale": finale}


def large_cases(ctx):
    cases = []
    combos = [("ClearG", 2), ("Drop", 0), ("ClearG", 0), ("Drop", 2)]

    def add(n, finale, g):
        c = large_history(n, g, finale, ctx.rng)
        c["via"] = VIAS[len(cases) % 3]
        cases.append(c)
    if ctx.thorough:
        for n in [15, 16, 17, 30, 31, 32, 33, 40, 63, 64, 65, 100, 127, 128, 129, 255, 256, 257, 1000, 1024, 1025]:
            for f in LARGE_FINALES:
                for g in (0, 2):
                    add(n, f, g)
        for n in [2049, 4097]:
            for f, g in combos:
                add(n, f, g)
    else:
        k = 0
        for n in [15, 16, 17, 31, 32, 63, 64, 65, 127, 128, 129, 255, 256, 257]:   # one combination each, rotating
            add(n, *combos[k % 4])
            k += 1
        for n in [33, 40, 100, 130, 260]:                                           # every combination
            for f, g in combos:
                add(n, f, g)
        for n in [40, 130]:
            for f in ("DeleteAll", "Rebuild", "ClearAll"):
                for g in (0, 2):
                    add(n, f, g)
        add(1000, "ClearG", 2)
        add(1025, "Drop", 0)
    cases.sort(key=lambda c: c["size"])    # the first violation reported is the smallest witness
    return cases


def load_corpus_files():
    d = os.path.join(vf.VERIF, "corpus", "C04")
    out = []
    if os.path.isdir(d):
        for fn in sorted(os.listdir(d)):
            if fn.endswith(".json"):
                import json
                c = json.load(open(os.path.join(d, fn)))
                c.setdefault("battery", [])
                out.append(c)
    return out


# ---- the check --------------------------------------------------------------------------------
def evaluate(ctx, binpath, cases, stream, chunk=None):
    impl = ctx.run_impl(binpath, cases)
    exprs = []
    for c in cases:
        b, o = ops_coq(c["battery"]), ops_coq(c["ops"])
        exprs.append("(model_run %s %s, spec_run %s %s)" % (b, o, b, o))
    model = ctx.run_model("Store", ["KV.Store.Model", "KV.Store.Spec", "KV.Store.Run"], exprs, chunk=chunk)
    nmis = nviol = 0
    for c, im, mo in zip(cases, impl, model):
        ctx.count()
        if isinstance(mo, tuple) and mo and mo[0] == "ERROR":
            ctx.broken("correspondence", stream, "model evaluation failed: %s" % (mo[1],), c)
            continue
        m_run = [[canon_model(x) for x in step] for step in mo[0]]
        s_run = [[canon_model(x) for x in step] for step in mo[1]]
        for run_ in (m_run, s_run):
            for step, op in zip(run_, c["ops"]):
                step[0] = own_output(c, op, step[0])
        if "outs" not in im:
            # a panic or a dead driver is observable behaviour the Spec does not allow
            ctx.violation(c, {"what": "implementation panicked / died on a store history", "impl": im})
            nviol += 1
            continue
        i_run = im["outs"]
        if i_run != m_run:
            nmis += 1
            k = next((i for i in range(len(m_run)) if i >= len(i_run) or i_run[i] != m_run[i]), 0)
        # the Spec is the oracle
        bad = None
        for k, (a, b) in enumerate(zip(i_run, s_run)):
            for j, (x, y) in enumerate(zip(a, b)):
                if not spec_agrees(x, y):
                    bad = (k, j, x, y)
                    break
            if bad:
                break
        if bad:
            k, j, x, y = bad
            opseq = c["ops"][:k + 1]
            obs = c["ops"][k] if j == 0 else c["battery"][j - 1]
            vc = {"ops": opseq, "observer": obs, "via": via_of(c)}
            if c.get("nterms"):
                vc["nterms"] = c["nterms"]
            ctx.violation(vc,
                          {"what": "a store read path disagrees with the abstract quad set",
                           "after_history": opseq, "observer": obs, "implementation": x, "spec": y})
            nviol += 1
        elif i_run != m_run:
            ctx.broken("correspondence", stream, "implementation and model outputs differ but the Spec oracle accepts the implementation",
                       {"ops": c["ops"], "impl": i_run, "model": m_run})
        flat = [x for st in i_run for x in st]
        grew = any(x.get("bool") for st in i_run for x in st[:1]) or \
            any(x.get("unit") and op[0] == "I" for st, op in zip(i_run, c["ops"]) for x in st[:1])
        if any((x.get("quads") or x.get("graphs")) for x in flat) and grew:
            ctx.nontrivial([via_of(c)] + c["ops"])
    ctx.log("stream %s: %d cases evaluated" % (stream, len(cases)))
    allops = [op for c in cases for op in c["ops"] + c["battery"]]
    ctx.stream(stream, cases=len(cases), impl_model_mismatches=nmis, spec_violations=nviol,
               via={v: sum(1 for c in cases if via_of(c) == v) for v in VIAS},
               query_builder_observers=sum(1 for op in allops if op[0] in ("QB", "QBDec", "QBCount")) ,
               string_level_mutations=sum(1 for c in cases if via_of(c) == "parts" for op in c["ops"]
                                          if op[0] == "I" or (op[0] == "D" and op[4] == 0)))


def driver(ctx):
    # VERIF_C04_BIN: run against a driver built elsewhere (mutation self-test on a private copy of /repo,
    # see notes/C04.md); the normal path builds the harness against /repo's working tree.
    return os.environ.get("VERIF_C04_BIN") or ctx.harness("c04")


def run(ctx):
    ctx.coq("Store", "C04.v")
    binpath = driver(ctx)
    S, P, O, G = [1, 2], [1, 2], [1], [0, 1, 2]
    bat = battery(S, P, O, G)
    muts = mutators(S, P, O, G)
    # corpus first
    corpus = [
        {"ops": [["I", 1, 1, 1, 1], ["D", 1, 1, 1, 1], ["Drop", 1], ["Rebuild"]], "battery": bat, "via": "db"},
        {"ops": [["Create", 2], ["I", 1, 1, 1, 2], ["I", 1, 1, 1, 1], ["ClearG", 2], ["Rebuild"], ["I", 1, 1, 1, 0], ["Drop", 0]], "battery": bat, "via": "index"},
        {"ops": [["I", 1, 2, 1, 0], ["I", 2, 2, 1, 0], ["D", 1, 2, 1, 0], ["I", 1, 2, 1, 2], ["ClearAll"], ["I", 2, 1, 1, 1]], "battery": bat, "via": "index"},
        # string-level mutators + QueryBuilder: same triple in the default and a named graph, delete, rebuild
        {"ops": [["I", 1, 2, 1, 0], ["I", 1, 2, 1, 2], ["I", 2, 2, 1, 0], ["I", 1, 1, 1, 0], ["D", 1, 2, 1, 0], ["Rebuild"],
                 ["D", 1, 2, 1, 2], ["I", 1, 2, 1, 0], ["Drop", 0]], "battery": bat, "via": "parts"},
    ]
    corpus += load_corpus_files()
    evaluate(ctx, binpath, corpus, "corpus")
    # exhaustive small scope
    L = 3 if ctx.thorough else 2
    ex = []
    for hist in itertools.product(muts, repeat=L):
        ex.append({"ops": list(hist), "battery": bat, "via": VIAS[len(ex) % 3]})
    ctx.sample({"ops": ex[len(ex) // 3]["ops"], "battery_size": len(bat)})
    evaluate(ctx, binpath, ex, "exhaustive_len%d" % L)
    # every history over the operations that have a string-level entry point, through that entry point
    # (each history of the stream above runs through only one of the three entry points)
    sm = [m for m in muts if m[0] == "I" or (m[0] == "D" and m[4] == 0)] + [["Rebuild"]]
    light = [["QGraph", g, None, None, None] for g in G] + \
            [["QB", None, None, None, "eee"], ["QB", S[-1], None, O[0], "ene"], ["QBDec", None, P[0], None, "ese"],
             ["QBCount", None, None, None, "eee"], ["AllQuads"], ["Graphs"], ["QNamed", None, None, None, None]]
    exs = [{"ops": list(h), "battery": light, "via": "parts"} for h in itertools.product(sm, repeat=L)]
    evaluate(ctx, binpath, exs, "exhaustive_string_level_len%d" % L)
    ctx.coverage["exhaustive"] = True
    ctx.coverage["exhaustive_scope"] = ("all %d^%d mutator histories of length %d, %d observers after every step (entry point index/db/parts "
                                        "by position); all %d^%d histories of the string-level mutators + Rebuild through the string-level entry "
                                        "points, %d observers after every step") % (len(muts), L, L, len(bat), len(sm), L, len(light))
    # large graphs
    lg = large_cases(ctx)
    ctx.sample({"large_graph_case": {"size": lg[len(lg) // 2]["size"], "finale": lg[len(lg) // 2]["finale"],
                                     "ops_head": lg[len(lg) // 2]["ops"][:5], "n_ops": len(lg[len(lg) // 2]["ops"])}})
    evaluate(ctx, binpath, lg, "large_graph", chunk=1)   # one coqc per case: the 1000-quad cases do not queue behind each other
    ctx.stream("large_graph", sizes=sorted({c["size"] for c in lg}),
                                      finales={f: sum(1 for c in lg if c["finale"] == f) for f in LARGE_FINALES},
                                      default_graph=sum(1 for c in lg if c["ops"][3][4] == 0),
                                      named_graph=sum(1 for c in lg if c["ops"][3][4] != 0))
    # random
    n = 2000 if ctx.thorough else 240
    rnd = []
    for i in range(n):
        rnd.append({"ops": random_history(ctx.rng, 60 if ctx.thorough else 40), "battery": [], "via": VIAS[i % 3]})
    ctx.sample({"ops": rnd[0]["ops"][:12]})
    evaluate(ctx, binpath, rnd, "random")
    ctx.finish(
        level="proof", rule=PROP_RULE,
        trusted_base=[
            "Coq 8.16.1 kernel; vm_compute for running the model in the correspondence check",
            "hand-written Gallina model coq/Store/{Trie,Model}.v of shared/src/dataset_index.rs, SparqlDatabase::build_all_indexes and QueryBuilder::apply_filters (string filters, get_triples/get_decoded_triples/count)",
            "correspondence check: harness/src/bin/c04.rs (public API only), checks/c04.py generators and canonicalisation",
            "dictionary abstraction: terms are the strings t0..t9 encoded first in order (id i <-> \"t<i>\", asserted by the driver); Dictionary::encode/decode being a bijection is property C15, not re-proved here; on this universe exact / contains / starts-with / ends-with filters coincide",
            "HashMap/HashSet/BTreeSet modelled as association lists; u32 ids modelled as unbounded N",
        ],
        assumptions=["iteration order of hash maps is unobservable after sorting outputs",
                     "string-level mutators (add_triple_parts, delete_triple_parts, add_quad_parts) are driven with terms that survive cleaning unchanged; add_triple_parts returns nothing, so its own result is not compared (its effect is, by every observer)",
                     "QueryBuilder join / order_by / limit / offset / custom closures and the streaming mode are outside C04 (not lookup shapes of the store)",
                     "states deserialised from the pre-catalog on-disk format are outside the model (histories start from an empty store)"])


def replay(ctx):
    binpath = driver(ctx)
    c = ctx.replay["case"]
    case = {"ops": c["ops"][:-1] + [c["ops"][-1]], "battery": [c["observer"]] if c.get("observer") else [],
            "via": c.get("via") or ("db" if c.get("via_db") else "index")}
    if c.get("nterms"):
        case["nterms"] = c["nterms"]
    evaluate(ctx, binpath, [case], "replay")
    ctx.finish(level="proof", rule=PROP_RULE)
