"""C15 - term identifiers are a stable bijection, also across database union (DESIGN.md section 7, C15).

Theorems: coq/Dict/C15.v (invariant of the dictionary + quoted store under every call sequence, stability,
bijection, structural identity of quoted triples in a disjoint range; `union` denotes the union of the
lexical datasets).
Correspondence: the real Dictionary / QuotedTripleStore / SparqlDatabase::{encode_term_star, decode_any, union}
against the Gallina model (`KV.Dict.Run.seq_run`, `pair_run`), id-for-id (allocation is deterministic) and on
the lexical denotation; the property itself, evaluated in Python on the implementation's outputs, is the oracle
for violations (`seq_oracle`, `pair_oracle`).
"""
import itertools
import json
import os

import vf

QBIT = 1 << 31

PROP_RULE = ("sequence cases are histories of Dictionary::encode/decode, QuotedTripleStore::encode/decode, "
             "encode_term_star and decode_any calls; a sequence case is non-trivial when it hands out at least two "
             "plain ids and one quoted id and re-encodes at least one already known term; pair cases are two "
             "independently populated databases and their union; a pair case is non-trivial when both operands "
             "contribute at least one quad to the union and some identifier denotes different terms in the two "
             "operands (a clash). Distinct by the rendered case.")

# ---- lexical forms -------------------------------------------------------------------------------
# name n (a number in the model) <-> the Rust string.  Raw mode hands the string to Dictionary::encode
# unchanged, so anything goes; db mode goes through encode_term_star, which trims and strips <>/"" and
# splits quoted triples at blanks, so only forms that survive that unchanged are used there.
RAW_LEX = ["", " ", "a", "A", "é", "<< a A a >>", "a A", "\"a\"", "<a>", "a ", "0", "中文", "a\n"]


def lex_raw(n):
    return RAW_LEX[n] if n < len(RAW_LEX) else "r%d" % n


def lex_db(n):
    if n % 3 == 0:
        return "http://e.org/r%d" % n
    if n % 3 == 1:
        return "t%d" % n
    return "_:b%d" % n


# mode "text": terms with multi-byte characters (2-, 3-, 4-byte UTF-8; IRIs, literals - also with blanks -, prefixed and
# blank-node names) that reach the dictionary only through the TEXT handed to encode_term_star.  (kind, cleaned lexical form)
TEXT_LEX = [("iri", "urn:caf\u00e9"), ("iri", "urn:p"), ("lit", "na\u00efve \u2603"), ("iri", "http://\u4f8b\u3048.jp/\u30d1\u30b9"),
            ("lit", "\U0001d11e clef \U0001f600"), ("bare", "ex:\u03a9mega"), ("lit", "\u00df"), ("bare", "_:b\u00e9"),
            ("iri", "urn:x-\U0001f600"), ("lit", "a"), ("iri", "urn:\u00e9\u00e9"), ("lit", "\u2603")]


def lex_text(n):
    return TEXT_LEX[n][1] if n < len(TEXT_LEX) else "urn:t\u00e9%d" % n


def text_input(n):
    """the surface form of term n as it is written in a request / document"""
    kind, s = TEXT_LEX[n] if n < len(TEXT_LEX) else ("iri", lex_text(n))
    return "<%s>" % s if kind == "iri" else ('"%s"' % s if kind == "lit" else s)


def unlex(table, s):
    return table[s]


def term_coq(t):
    if isinstance(t, int):
        return "(TLeaf %d%%N)" % t
    return "(TQuote %s %s %s)" % tuple(term_coq(x) for x in t)


def term_json(t, lex):
    """the structured term handed to the driver (strings and 3-arrays)"""
    if isinstance(t, int):
        return lex(t)
    return [term_json(x, lex) for x in t]


def term_str(t, lex):
    """what decode_term renders"""
    if isinstance(t, int):
        return lex(t)
    return "<< %s %s %s >>" % tuple(term_str(x, lex) for x in t)


def term_input(t, lex, rng):
    """a string for encode_term_star that denotes t: IRIs may come in angle brackets"""
    if isinstance(t, int):
        if lex is lex_text:
            return text_input(t)
        s = lex(t)
        if s.startswith("http") and rng.random() < 0.5:
            return "<%s>" % s
        return s
    return "<< %s %s %s >>" % tuple(term_input(x, lex, rng) for x in t)


def norm(v):
    """vf.parse_coq leaves a bare constructor in argument position as ("@", name)"""
    if isinstance(v, tuple):
        if len(v) == 2 and v[0] == "@":
            return v[1]
        return tuple(norm(x) for x in v)
    if isinstance(v, list):
        return [norm(x) for x in v]
    return v


def model_term(v):
    """parsed Coq term -> python term (int | 3-tuple)"""
    if v[0] == "TLeaf":
        return v[1]
    return (model_term(v[1]), model_term(v[2]), model_term(v[3]))


def rand_term(rng, names, depth, pool=None):
    """a random term of nesting depth <= depth; `pool` holds quoted terms seen before (shared sub-terms)"""
    if depth == 0 or rng.random() < 0.45:
        return rng.choice(names)
    if pool and rng.random() < 0.3:
        t = rng.choice(pool)
        if depth_of(t) <= depth:
            return t
    return (rand_term(rng, names, depth - 1, pool), rand_term(rng, names, depth - 1, pool), rand_term(rng, names, depth - 1, pool))


def depth_of(t):
    return 0 if isinstance(t, int) else 1 + max(depth_of(x) for x in t)


# ---- a tiny reference simulation, only used to generate arguments that refer to issued ids ---------------
class Sim:
    def __init__(self):
        self.d, self.q, self.nd, self.nq = {}, {}, 0, QBIT

    def enc(self, n):
        if n not in self.d:
            self.d[n] = self.nd
            self.nd += 1
        return self.d[n]

    def encq(self, a, b, c):
        k = (a, b, c)
        if k not in self.q:
            self.q[k] = self.nq
            self.nq += 1
        return self.q[k]

    def enct(self, t):
        if isinstance(t, int):
            return self.enc(t)
        a, b, c = (self.enct(x) for x in t)
        return self.encq(a, b, c)

    def issued(self):
        return list(range(self.nd)) + list(range(QBIT, self.nq))

    def apply(self, op):
        if op[0] == "Enc":
            self.enc(op[1])
        elif op[0] == "EncQ":
            self.encq(*op[1:4])
        elif op[0] == "EncT":
            self.enct(op[1])

    def copy(self):
        s = Sim()
        s.d, s.q, s.nd, s.nq = dict(self.d), dict(self.q), self.nd, self.nq
        return s


# ---- sequence cases ----------------------------------------------------------------------------------
def op_coq(op):
    t = op[0]
    if t == "Enc":
        return "Enc %d%%N" % op[1]
    if t in ("Dec", "DecQ", "DecT"):
        return "%s %d%%N" % (t, op[1])
    if t == "EncQ":
        return "EncQ %d%%N %d%%N %d%%N" % tuple(op[1:4])
    if t == "EncT":
        return "EncT %s" % term_coq(op[1])
    raise ValueError(t)


def lex_of(mode):
    return lex_db if mode == "db" else (lex_text if mode == "text" else lex_raw)


def seq_case(ops, mode, rng, start_next=None, start_next_qt=None):
    lex = lex_of(mode)
    jops = []
    for op in ops:
        if op[0] == "Enc":
            jops.append(["Enc", lex(op[1])])
        elif op[0] == "EncT":
            jops.append(["EncT", term_json(op[1], lex), term_input(op[1], lex, rng)])
        else:
            jops.append(list(op))
    c = {"kind": "seq", "mode": mode, "ops": jops, "mops": [list(o) if o[0] != "EncT" else ["EncT", o[1]] for o in ops]}
    if start_next is not None:
        c["start_next"] = start_next
    if start_next_qt is not None:
        c["start_next_qt"] = start_next_qt
    return c


def tuplify(x):
    return tuple(tuplify(y) for y in x) if isinstance(x, (list, tuple)) else x


def canon_tree(j, table):
    """driver tree (strings / 3-arrays / null) -> python term over names"""
    if j is None:
        return None
    if isinstance(j, str):
        return table.get(j, ("?", j))
    return tuple(canon_tree(x, table) for x in j)


def unz(z):
    """Run.v prints a quoted id 2^31 + k as -(k+1)"""
    return z if z >= 0 else QBIT + (-z - 1)


def model_out(v, lex):
    tag = v[0]
    if tag == "RId":
        return {"id": unz(v[1])}
    if tag == "RLex":
        return {"lex": None if v[1] is None else lex(v[1][1])}
    if tag == "RKey":
        return {"key": None if v[1] is None else [unz(x) for x in v[1][1]]}
    if tag == "RTerm":
        if v[1][0] == "Ok":
            t = model_term(v[1][1])
            return {"str": term_str(t, lex), "tree": term_json(t, lex)}
        return {"str": None, "tree": None}
    raise ValueError(v)


def model_dump(v, lex):
    k2i, i2k, nxt, (qk2i, qi2k, qnxt) = v
    return {"s2i": sorted([lex(k), unz(i)] for k, i in k2i), "i2s": sorted([unz(i), lex(k)] for i, k in i2k), "next": unz(nxt),
            "c2i": sorted([[unz(a), unz(b), unz(c)], unz(i)] for a, b, c, i in qk2i),
            "i2c": sorted([unz(i), [unz(x) for x in k]] for i, k in qi2k),
            "next_qt": unz(qnxt)}


def seq_oracle(case, outs):
    """The property, clause by clause, on the implementation's own outputs (no model involved).
    Returns None or a description of the contradiction."""
    mops = case["mops"]
    id_of_lex, lex_of_id = {}, {}
    id_of_key, key_of_id = {}, {}
    id_of_term = {}
    boundary = "start_next" in case or "start_next_qt" in case
    for k, (op, o) in enumerate(zip(mops, outs)):
        t = op[0]
        if "panic" in o:
            # refusing is the allowed outcome at the limits of the id space (the dictionary's exhaustion assert,
            # an overflow check of the quoted counter) and nowhere else
            if boundary and ("exhausted" in o["panic"] or "overflow" in o["panic"]):
                # ... and a refused call leaves nothing behind: the same call, issued again, is refused again
                r = o.get("retry")
                if r is not None and "id" in r:
                    if r["id"] >= QBIT:
                        return ("step %d: encode(%r) was refused (dictionary exhausted) and, called again, returned the id %d "
                                "in the quoted range" % (k, op[1], r["id"]))
                    return "step %d: encode(%r) was refused (dictionary exhausted) and, called again, returned %d" % (k, op[1], r["id"])
                return None
            return "step %d: the call panicked: %s" % (k, o["panic"])
        if t == "Enc":
            i, s = o["id"], op[1]
            if i >= QBIT:
                return "step %d: plain term got id %d in the quoted range" % (k, i)
            if s in id_of_lex and id_of_lex[s] != i:
                return "step %d: term %r encoded to %d earlier and to %d now" % (k, s, id_of_lex[s], i)
            if i in lex_of_id and lex_of_id[i] != s:
                return "step %d: id %d is shared by terms %r and %r" % (k, i, lex_of_id[i], s)
            id_of_lex[s], lex_of_id[i] = i, s
        elif t == "Dec":
            i = op[1]
            if i in lex_of_id and o["lex"] != case["_lex"](lex_of_id[i]):
                return "step %d: decode(%d) = %r but the id was handed out for %r" % (k, i, o["lex"], case["_lex"](lex_of_id[i]))
        elif t == "EncQ":
            i, key = o["id"], tuple(op[1:4])
            if i < QBIT:
                return "step %d: quoted triple got id %d outside the quoted range" % (k, i)
            if key in id_of_key and id_of_key[key] != i:
                return "step %d: quoted triple %r encoded to %d earlier and to %d now" % (k, key, id_of_key[key], i)
            if i in key_of_id and key_of_id[i] != key:
                return "step %d: quoted id %d is shared by %r and %r" % (k, i, key_of_id[i], key)
            id_of_key[key], key_of_id[i] = i, key
        elif t == "DecQ":
            i = op[1]
            if i in key_of_id and (o["key"] is None or tuple(o["key"]) != key_of_id[i]):
                return "step %d: quoted decode(%d) = %r but the id was handed out for %r" % (k, i, o["key"], key_of_id[i])
            # structural identity over terms: a quoted term's components are the ids of the same terms encoded on their own
            for tm, i2 in id_of_term.items():
                if i2 == i and not isinstance(tm, int) and all(x in id_of_term for x in tm):
                    want = [id_of_term[x] for x in tm]
                    if o["key"] != want:
                        return ("step %d: the components of quoted id %d are %r, but its three component terms encoded on their own have ids %r"
                                % (k, i, o["key"], want))
        elif t == "EncT":
            i, tm = o["id"], tuplify(op[1])
            if (i >= QBIT) != (not isinstance(tm, int)):
                return "step %d: term %r got id %d in the wrong range" % (k, tm, i)
            if tm in id_of_term and id_of_term[tm] != i:
                return "step %d: term %r encoded to %d earlier and to %d now" % (k, tm, id_of_term[tm], i)
            for tm2, i2 in id_of_term.items():
                if i2 == i and tm2 != tm:
                    return "step %d: id %d is shared by terms %r and %r" % (k, i, tm2, tm)
            id_of_term[tm] = i
            if isinstance(tm, int):
                if tm in id_of_lex and id_of_lex[tm] != i:
                    return "step %d: term %r encoded to %d by Dictionary::encode and to %d by encode_term_star" % (k, tm, id_of_lex[tm], i)
                if i in lex_of_id and lex_of_id[i] != tm:
                    return "step %d: id %d is shared by terms %r and %r" % (k, i, lex_of_id[i], tm)
                id_of_lex[tm], lex_of_id[i] = i, tm
        elif t == "DecT":
            i = op[1]
            for tm, i2 in id_of_term.items():
                if i2 == i:
                    want = term_json(tm, case["_lex"])
                    if o["tree"] != want:
                        return "step %d: decoding id %d gives %r but it was handed out for %r" % (k, i, o["tree"], want)
    return None


def run_impl_isolating(ctx, binpath, cases):
    """ctx.run_impl, but when a driver process dies (abort, e.g. stack overflow) the cases behind the crashing one
    in the same shard are run again, so that only the case that really kills the driver is reported as dead."""
    res = ctx.run_impl(binpath, cases)
    for _ in range(6):
        dead = [i for i, r in enumerate(res) if isinstance(r, dict) and r.get("driver_died")]
        if not dead:
            break
        # the first dead case of every contiguous run is a real crasher; the others were never run
        real = [i for k, i in enumerate(dead) if k == 0 or dead[k - 1] != i - 1]
        rest = [i for i in dead if i not in set(real)]
        if not rest:
            break
        again = ctx.run_impl(binpath, [cases[i] for i in rest], shards=min(16, len(rest)))
        for i, r in zip(rest, again):
            res[i] = r
        for i in real:
            res[i] = dict(res[i], driver_died=False, crashed=True)
    for i, r in enumerate(res):
        if isinstance(r, dict) and r.get("driver_died"):
            res[i] = dict(r, crashed=True)
    return res


def eval_seq(ctx, binpath, cases, stream):
    impl = run_impl_isolating(ctx, binpath, [{k: v for k, v in c.items() if k != "mops"} for c in cases])
    exprs = ["seq_run_from %d%%N %d%%N [%s]" % (c.get("start_next", 0), c.get("start_next_qt", QBIT),
                                               "; ".join(op_coq(tuple(o) if o[0] != "EncT" else ("EncT", tuplify(o[1]))) for o in c["mops"]))
             for c in cases]
    model = [norm(m) for m in ctx.run_model("Dict", ["KV.Dict.Model", "KV.Dict.Spec", "KV.Dict.Run"], exprs)]
    nmis = nviol = nrefused = 0
    kinds = {}
    for c, im, mo in zip(cases, impl, model):
        ctx.count()
        lex = lex_of(c["mode"])
        c["_lex"] = lex
        pub = {k: v for k, v in c.items() if k not in ("_lex",)}
        for o in c["mops"]:
            kinds[o[0]] = kinds.get(o[0], 0) + 1
        if isinstance(mo, tuple) and mo and mo[0] == "ERROR":
            ctx.broken("correspondence", stream, "model evaluation failed: %s" % (mo[1],), pub)
            continue
        if im is None or "outs" not in im:
            ctx.violation(pub, {"what": "implementation died on a sequence of encode/decode calls", "impl": im})
            nviol += 1
            continue
        bad = seq_oracle(c, im["outs"])
        if bad:
            ctx.violation(pub, {"what": "the identifier bijection is violated", "detail": bad, "impl_outs": im["outs"]})
            nviol += 1
            continue
        m_outs = [model_out(v, lex) for v in mo[0]]
        m_err = None if mo[1] is None else mo[1][1]
        m_dump = model_dump(mo[2], lex)
        i_outs = im["outs"]
        differ = None
        if im.get("panicked"):
            nrefused += 1
            k = len(i_outs) - 1
            msg = i_outs[k]["panic"]
            if i_outs[:k] != m_outs[:k]:
                differ = "outputs before the refused call differ"
            elif "exhausted" in msg:
                # the dictionary's assert: the model must stop at the same call with Exhausted
                if not (m_err == "Exhausted" and len(m_outs) == k):
                    differ = "implementation refused call %d (dictionary exhausted), model: %r after %d calls" % (k, m_err, len(m_outs))
                elif c["mops"][k][0] == "Enc" and any(im["dump"].get(f) != m_dump.get(f) for f in ("s2i", "i2s", "next")):
                    # the model's maps are those in which the refused call was made: a refused plain encode changes nothing
                    differ = "the refused encode (call %d) changed the dictionary maps" % k
            elif "overflow" in msg:
                # u32 overflow check of next_qt_id (debug builds): the unbounded model hands out 2^32-1 there
                if not (k < len(m_outs) and m_outs[k] == {"id": 2 ** 32 - 1}):
                    differ = "implementation refused call %d (%s), model does not reach the end of the u32 range there" % (k, msg)
            else:
                differ = "unexpected panic %r" % msg
        elif m_err is not None:
            differ = "model stops with %r after %d calls, implementation ran" % (m_err, len(m_outs))
        elif i_outs != m_outs or im["dump"] != m_dump:
            k = next((i for i in range(len(m_outs)) if i >= len(i_outs) or i_outs[i] != m_outs[i]), None)
            differ = "first differing step %r" % (k,)
        if differ:
            nmis += 1
            ctx.broken("correspondence", stream,
                       "implementation and model differ (%s) but the property oracle accepts the implementation" % differ,
                       {"case": pub, "impl": im, "model_outs": m_outs, "model_err": m_err, "model_dump": m_dump})
        ids = [o["id"] for o in im["outs"] if "id" in o]
        if len({i for i in ids if i < QBIT}) >= 2 and any(i >= QBIT for i in ids) and len(ids) > len(set(ids)):
            ctx.nontrivial(c["mops"])
    ctx.stream(stream, cases=len(cases), impl_model_mismatches=nmis, spec_violations=nviol, refused_calls=nrefused,
               **{"op_" + k: v for k, v in kinds.items()})
    ctx.log("%s: %d sequence cases (%d end in a refused call), %d impl/model mismatches, %d spec violations" % (stream, len(cases), nrefused, nmis, nviol))


def exhaustive_seq(L, rng):
    """every history of L mutators (arguments of EncQ drawn from ids issued so far), a battery of decoders
    after every step"""
    trees = [0, (0, 1, 0), ((0, 1, 0), 1, 2)]
    cases = []

    def battery(sim):
        ids = sorted(set([0, 1, sim.nd, QBIT, QBIT + 1, sim.nq - 1 if sim.nq > QBIT else QBIT - 1]))
        b = []
        for i in ids:
            b += [("Dec", i), ("DecQ", i), ("DecT", i)]
        return b

    def rec(prefix, sim, depth):
        if depth == L:
            cases.append(list(prefix))
            return
        muts = [("Enc", n) for n in (0, 1, 2)] + [("EncT", t) for t in trees]
        iss = sim.issued()
        pick = sorted(set(iss[:1] + iss[-2:]))
        for a in pick:
            for b in pick[:2]:
                for c in pick[-1:]:
                    muts.append(("EncQ", a, b, c))
        for m in muts:
            s2 = sim.copy()
            s2.apply(m)
            rec(prefix + [m] + battery(s2), s2, depth + 1)

    rec([], Sim(), 0)
    return [seq_case(ops, "db" if k % 2 else "raw", rng) for k, ops in enumerate(cases)]


def boundary_seq(rng, thorough):
    """histories whose public counters were set close to the end of their id ranges beforehand: the dictionary must
    refuse (assert) rather than hand out a plain id >= 2^31; the quoted counter must not wrap below 2^31"""
    cases = []
    fresh = lambda: [("Enc", n) for n in (0, 1, 2, 3)]
    for mode in ("raw", "db"):
        for start in (QBIT - 3, QBIT - 2, QBIT - 1, QBIT):
            # plain fresh terms up to and over the limit; a known term is still served after exhaustion
            cases.append(seq_case([("Enc", 0), ("Enc", 1), ("Enc", 0), ("Dec", start), ("Enc", 2), ("Dec", start + 1), ("Enc", 3), ("Enc", 0)],
                                  mode, rng, start_next=start))
            # the limit is met inside encode_term_star of a quoted term
            cases.append(seq_case([("EncT", 0), ("EncT", (0, 1, 0)), ("DecT", QBIT), ("EncT", (2, 0, 3)), ("DecT", QBIT + 1)],
                                  mode, rng, start_next=start))
            cases.append(seq_case([("Enc", 5), ("EncQ", start, start, start), ("DecT", QBIT), ("Enc", 6), ("Enc", 7), ("Enc", 8), ("DecT", QBIT - 1), ("DecT", QBIT)],
                                  mode, rng, start_next=start))
        for startq in (2 ** 32 - 3, 2 ** 32 - 2, 2 ** 32 - 1):
            cases.append(seq_case([("Enc", 0), ("Enc", 1), ("EncQ", 0, 1, 0), ("DecQ", startq), ("DecT", startq), ("EncQ", 0, 1, 0),
                                   ("EncQ", 1, 1, 0), ("DecT", startq + 1 if startq + 1 < 2 ** 32 else startq), ("EncQ", 1, 0, 0), ("EncQ", 0, 0, 0)],
                                  mode, rng, start_next_qt=startq))
            cases.append(seq_case([("EncT", (0, 1, 0)), ("EncT", ((0, 1, 0), 1, 0)), ("DecT", startq), ("EncT", (1, 1, 1)), ("EncT", (0, 0, 0))],
                                  mode, rng, start_next_qt=startq))
    for i in range(60 if thorough else 12):
        start = QBIT - rng.randrange(0, 6)
        names = list(range(8))
        ops = []
        for _ in range(12):
            r = rng.random()
            if r < 0.5:
                ops.append(("Enc", rng.choice(names)))
            elif r < 0.7:
                ops.append(("EncT", rand_term(rng, names, rng.choice([0, 1, 2]))))
            elif r < 0.85:
                ops.append(("Dec", rng.choice([start, start + 1, QBIT - 1, QBIT])))
            else:
                ops.append(("DecT", rng.choice([start, QBIT - 1, QBIT, QBIT + 1])))
        cases.append(seq_case(ops, "db" if i % 2 else "raw", rng, start_next=start))
    return cases


def text_seq(rng, n):
    """quoted triples written as TEXT with multi-byte characters in their components, through encode_term_star:
    decode_any must render the same components, and a component inside a quoted triple must have the id the same term
    gets on its own (checked by DecQ of the quoted id against the ids of the components encoded alone)"""
    names = list(range(len(TEXT_LEX)))
    cases = []
    for _ in range(n):
        sim = Sim()
        ops = []
        for _ in range(rng.choice([3, 6, 10])):
            t = rand_term(rng, names, rng.choice([1, 2, 3, 4]))
            if isinstance(t, int):
                t = (t, rng.choice(names), rng.choice(names))
            order = rng.random()
            parts = [("EncT", x) for x in t]
            if order < 0.4:              # components first, then the quoted triple
                new = parts + [("EncT", t)]
            elif order < 0.8:            # quoted triple first, then its components on their own
                new = [("EncT", t)] + parts
            else:
                new = [("EncT", t), ("Enc", rng.choice(names))]
            for o in new:
                sim.apply(o)
            qid = sim.enct(t)
            new += [("DecT", qid), ("DecQ", qid)]
            if rng.random() < 0.5:
                new.append(("DecT", sim.enct(t[0])))
            ops += new
        cases.append(seq_case(ops, "text", rng))
    return cases


def random_seq(rng, n):
    sim = Sim()
    names = list(range(rng.choice([3, 6, 13])))
    ops = []
    pool = []
    for _ in range(n):
        r = rng.random()
        iss = sim.issued()
        if r < 0.25:
            op = ("Enc", rng.choice(names))
        elif r < 0.45:
            if iss and rng.random() < 0.9:
                op = ("EncQ", rng.choice(iss), rng.choice(iss), rng.choice(iss))
            else:   # ids never handed out (far above anything a short history allocates: no cycles)
                op = ("EncQ", rng.choice(iss + [500]), 500 + rng.randrange(4), rng.choice([QBIT + 500, 501]))
        elif r < 0.65:
            t = rand_term(rng, names, rng.choice([1, 2, 3, 4]), pool)
            if not isinstance(t, int):
                pool.append(t)
            op = ("EncT", t)
        else:
            kind = rng.choice(["Dec", "DecQ", "DecT", "DecT"])
            if iss and rng.random() < 0.75:
                i = rng.choice(iss)
            else:
                i = rng.choice([0, sim.nd, sim.nd + 1, QBIT - 1, QBIT, sim.nq, sim.nq + 1, 2 ** 32 - 1, 500, QBIT + 500])
            op = (kind, i)
        sim.apply(op)
        ops.append(op)
    return ops


# ---- pairs of databases ------------------------------------------------------------------------------
def bop_coq(op):
    t = op[0]
    if t == "AddQuad":
        return "BAddQuad %s %s %s %d%%N" % (term_coq(op[1]), term_coq(op[2]), term_coq(op[3]), op[4])
    if t == "AddStar":
        return "BAddStar %s %s %s" % (term_coq(op[1]), term_coq(op[2]), term_coq(op[3]))
    if t == "AddTriple":
        return "BAddTriple %d%%N %d%%N %d%%N" % tuple(op[1:4])
    if t == "Tagged":
        return "BTagged %d%%N %d%%N %d%%N %d%%N" % tuple(op[1:5])
    if t == "Create":
        return "BCreate %d%%N" % op[1]
    if t == "Encode":
        return "BEncode %s" % term_coq(op[1])
    if t == "DelQuad":
        return "BDelQuad %s %s %s %s" % (term_coq(op[1]), term_coq(op[2]), term_coq(op[3]),
                                         "None" if op[4] is None else "(Some %d%%N)" % op[4])
    if t == "Seed":
        return "BSeed %s %s %s %d%%N" % (term_coq(op[1]), term_coq(op[2]), term_coq(op[3]), op[4])
    raise ValueError(t)


def bop_json(op, rng):
    t = op[0]
    tj = lambda x: [term_json(x, lex_db), term_input(x, lex_db, rng)]
    if t == "AddQuad":
        return ["AddQuad", tj(op[1]), tj(op[2]), tj(op[3]), lex_db(op[4])]
    if t == "AddStar":
        return ["AddStar", tj(op[1]), tj(op[2]), tj(op[3])]
    if t == "AddTriple":
        return ["AddTriple"] + [lex_db(x) for x in op[1:4]]
    if t == "Tagged":
        return ["Tagged"] + [lex_db(x) for x in op[1:4]] + [op[4]]
    if t == "Create":
        return ["Create", lex_db(op[1])]
    if t == "Encode":
        return ["Encode", tj(op[1])]
    if t == "DelQuad":
        return ["DelQuad", tj(op[1]), tj(op[2]), tj(op[3]), None if op[4] is None else lex_db(op[4])]
    if t == "Seed":
        return ["Seed", tj(op[1]), tj(op[2]), tj(op[3]), op[4]]
    raise ValueError(t)


def pair_case(a, b, rng, raw_quads=(), raw_graphs=(), raw_seeds=()):
    return {"kind": "pair", "a": [bop_json(o, rng) for o in a], "b": [bop_json(o, rng) for o in b],
            "raw_quads_b": [list(q) for q in raw_quads], "raw_graphs_b": list(raw_graphs), "raw_seeds_b": [list(s) for s in raw_seeds],
            "ma": [list(o) for o in a], "mb": [list(o) for o in b]}


def pair_coq(c):
    qs = "[" + "; ".join("(%d%%N, %d%%N, %d%%N, %s)" % (q[0], q[1], q[2], "None" if q[3] is None else "Some %d%%N" % q[3])
                         for q in c["raw_quads_b"]) + "]"
    gs = "[" + "; ".join("%d%%N" % g for g in c["raw_graphs_b"]) + "]"
    ss = "[" + "; ".join("((%d%%N, %d%%N, %d%%N), %d%%N)" % tuple(s) for s in c["raw_seeds_b"]) + "]"
    fix = lambda ops: "[" + "; ".join(bop_coq(tuplify_op(o)) for o in ops) + "]"
    return "pair_run %s %s %s %s %s" % (fix(c["ma"]), fix(c["mb"]), qs, gs, ss)


def tuplify_op(o):
    return [tuplify(x) if isinstance(x, list) else x for x in o]


DB_TABLE = {}
for _n in range(64):
    DB_TABLE[lex_db(_n)] = _n


def impl_den(d):
    """driver denotation -> canonical python sets over names; also checks decode_any's string against
    the structural decoding"""
    incons = []

    def tm(x):
        if x is None:
            return None
        s, tr = x
        t = canon_tree(tr, DB_TABLE)
        if (t is None) != (s is None) or (t is not None and s != term_str(t, lex_db)):
            incons.append((s, tr))
        return t

    quads = set()
    for q in d["quads"]:
        r = (tm(q[0]), tm(q[1]), tm(q[2]), ("G", tm(q[3])) if q[3] is not None else None)
        quads.add(r)
    graphs = {tm(g) for g in d["graphs"]}
    terms = {tm(g) for g in d["terms"]}
    quoted = {tm(g) for g in d["quoted"]}
    seeds = {}
    for s in d["seeds"]:
        seeds[(tm(s[0]), tm(s[1]), tm(s[2]))] = s[3]
    return {"quads": quads, "graphs": graphs, "terms": terms, "quoted": quoted, "seeds": seeds}, incons


def drop_undecodable(den):
    """okmap semantics of the model's den_*: elements that do not decode are not listed"""
    def ok(t):
        return t is not None
    return {"quads": {q for q in den["quads"] if ok(q[0]) and ok(q[1]) and ok(q[2]) and (q[3] is None or ok(q[3][1]))},
            "graphs": {g for g in den["graphs"] if ok(g)},
            "terms": {g for g in den["terms"] if ok(g)},
            "quoted": {g for g in den["quoted"] if ok(g)},
            "seeds": {k: v for k, v in den["seeds"].items() if all(ok(x) for x in k)}}


def model_den(v):
    """(quads, graphs, seeds) printed by Run.render"""
    quads, graphs, seeds = v
    qs = set()
    for q in quads:
        g = None if q[3] is None else ("G", model_term(q[3][1]))
        qs.add((model_term(q[0]), model_term(q[1]), model_term(q[2]), g))
    sd = {}
    for s in seeds:
        sd[(model_term(s[0]), model_term(s[1]), model_term(s[2]))] = float(s[3])
    return {"quads": qs, "graphs": {model_term(g) for g in graphs}, "seeds": sd}


def dump_den(dump, table):
    """the dictionary terms and the quoted terms a dump (id-for-id maps) denotes"""
    i2s = {i: table.get(s, ("?", s)) for i, s in dump["i2s"]}
    i2c = {i: tuple(k) for i, k in dump["i2c"]}

    def dec(i, depth=0):
        if depth > 64:
            return None
        if i >= QBIT:
            if i not in i2c:
                return None
            parts = tuple(dec(x, depth + 1) for x in i2c[i])
            return None if None in parts else parts
        return i2s.get(i)

    return {"terms": set(i2s.values()), "quoted": {dec(i) for i in i2c} - {None}}


def sub(den, keys=("quads", "graphs", "seeds")):
    return {k: den[k] for k in keys}


def spec_union(A, B):
    """the Spec: plain union of the lexical datasets (the parts the property names: quads, graph identities,
    quoted terms; seeds are judged by spec_seeds_ok)"""
    return {"quads": A["quads"] | B["quads"], "graphs": A["graphs"] | B["graphs"], "quoted": A["quoted"] | B["quoted"]}


def spec_seeds_ok(A, B, U):
    """seeds of the union: exactly the triples seeded in either operand, each with the seed of an operand that
    seeds it (where both do and disagree the property text does not say which one wins: the model - right operand
    wins, as the code inserts `other` last - is compared separately as correspondence)"""
    if set(U) != set(A) | set(B):
        return False
    return all(v in ([A[k]] if k in A else []) + ([B[k]] if k in B else []) for k, v in U.items())


def show(den):
    return {k: sorted(map(repr, v)) if isinstance(v, set) else sorted((repr(a), b) for a, b in v.items()) for k, v in den.items()}


def diff(x, y):
    out = {}
    for k in x:
        if x[k] != y[k]:
            if isinstance(x[k], set):
                out[k] = {"only_first": sorted(map(repr, x[k] - y[k])), "only_second": sorted(map(repr, y[k] - x[k]))}
            else:
                out[k] = {"first": sorted((repr(a), b) for a, b in x[k].items()), "second": sorted((repr(a), b) for a, b in y[k].items())}
    return out


def result_identity(ia, iu, U):
    """The first half of the property, observed IN the union result (executable form of C15_union_result_identity):
    (a) no lexical quad is stored twice; (b) the result's identifiers are a bijection (both pairs of maps mutually
    inverse, one id per quoted triple / term, ranges disjoint), decoding and re-encoding any id it holds returns that
    id and allocates nothing, and every id the left operand had handed out still stands for the same thing."""
    nq = len(iu["den"]["quads"])
    if nq != len(U["quads"]):
        return "the union stores %d quads but they decode to %d distinct lexical quads (a fact is stored twice)" % (nq, len(U["quads"]))
    d = iu["dump"]
    i2s, s2i = {i: x for i, x in d["i2s"]}, {x: i for x, i in d["s2i"]}
    i2c, c2i = {i: tuple(k) for i, k in d["i2c"]}, {tuple(k): i for k, i in d["c2i"]}
    if len(i2s) != len(s2i) or any(s2i.get(x) != i for i, x in i2s.items()):
        return "the union's dictionary maps are not mutually inverse"
    if len(i2c) != len(c2i) or any(c2i.get(k) != i for i, k in i2c.items()):
        two = [(i, k) for i, k in i2c.items() if c2i.get(k) != i][:1]
        return "the union's quoted store is not a bijection: id / components %r, but the components map to %r" % (two, [c2i.get(k) for _, k in two])
    if any(i >= QBIT for i in i2s) or any(i < QBIT for i in i2c):
        return "the union holds a plain id in the quoted range or a quoted id in the plain range"
    if len(i2c) != len(U["quoted"]):
        return "the union's %d quoted ids decode to %d distinct quoted terms (one quoted triple under two ids)" % (len(i2c), len(U["quoted"]))
    for i, x in ia["dump"]["i2s"]:
        if i2s.get(i) != x:
            return "id %d stood for %r in the left operand and stands for %r in the union" % (i, x, i2s.get(i))
    for i, k in ia["dump"]["i2c"]:
        if i2c.get(i) != tuple(k):
            return "quoted id %d had components %r in the left operand and %r in the union" % (i, k, i2c.get(i))
    rt = iu.get("roundtrip")
    if rt is not None and (rt["mismatches"] or rt["allocated"]):
        m = rt["mismatches"][:2]
        return ("decoding an id of the union and encoding the term again does not return the id: %r (id, decode_any, id encoded again)%s"
                % (m, "; re-encoding allocated new ids" if rt["allocated"] else ""))
    return None


def eval_pair(ctx, binpath, cases, stream):
    impl = run_impl_isolating(ctx, binpath, [{k: v for k, v in c.items() if k not in ("ma", "mb")} for c in cases])
    model = [norm(m) for m in ctx.run_model("Dict", ["KV.Dict.Model", "KV.Dict.Spec", "KV.Dict.Run"], [pair_coq(c) for c in cases])]
    nmis = nviol = npanic = nmal = ndump = 0
    sizes = {"union_quads": 0, "union_graphs": 0, "union_quoted": 0, "union_seeds": 0, "clash_cases": 0, "shared_term_cases": 0, "equal_dictionary_cases": 0, "shared_quoted_term_cases": 0,
             "quoted_id_clash_cases": 0, "roundtrip_ids_checked": 0,
             "empty_graph_cases": 0, "seed_clash_cases": 0, "max_depth": 0}
    for c, im, mo in zip(cases, impl, model):
        ctx.count()
        malformed = bool(c["raw_quads_b"] or c["raw_graphs_b"] or c["raw_seeds_b"])
        nmal += malformed
        if isinstance(mo, tuple) and mo and mo[0] == "ERROR":
            ctx.broken("correspondence", stream, "model evaluation failed: %s" % (mo[1],), c)
            continue
        if im is None or "u" not in im:
            ctx.violation(c, {"what": "implementation panicked / died while populating two databases", "impl": im})
            nviol += 1
            continue
        A, inc_a = impl_den(im["a"])
        B, inc_b = impl_den(im["b"])
        if mo[0] != "Ok":
            ctx.broken("correspondence", stream, "model could not build the operands: %r" % (mo,), c)
            continue
        mv = mo[1]
        MA, MB, MU = model_den(mv[0:3]), model_den(mv[3]), mv[4]
        detail = None
        # --- the implementation against the Spec (only meaningful for well-formed operands) ---
        if "panic" in im["u"]:
            npanic += 1
            if not malformed:
                ctx.violation(c, {"what": "union of two databases built through the public API panicked", "panic": im["u"]["panic"]})
                nviol += 1
                continue
            U = None
        else:
            U, inc_u = impl_den(im["u"]["den"])
            if not malformed:
                want = spec_union(A, B)
                if inc_a or inc_b or inc_u:
                    ctx.violation(c, {"what": "decode_any disagrees with the structural decoding of an id", "examples": (inc_a + inc_b + inc_u)[:3]})
                    nviol += 1
                    continue
                if sub(U, ("quads", "graphs", "quoted")) != want or not spec_seeds_ok(A["seeds"], B["seeds"], U["seeds"]):
                    ctx.violation(c, {"what": "the union does not denote the union of the two lexical datasets",
                                      "difference(union, spec)": diff(sub(U, ("quads", "graphs", "quoted")), want),
                                      "seeds": {"a": show({"s": A["seeds"]})["s"], "b": show({"s": B["seeds"]})["s"], "union": show({"s": U["seeds"]})["s"]},
                                      "a": show(A), "b": show(B), "union": show(U)})
                    nviol += 1
                    continue
                if None in U["terms"] or None in U["quoted"] or None in U["graphs"]:
                    ctx.violation(c, {"what": "the union holds an id that does not decode", "union": show(U)})
                    nviol += 1
                    continue
                bad = result_identity(im["a"], im["u"], U)
                if bad:
                    ctx.violation(c, {"what": "the union result is not a stable bijection / stores a fact twice", "detail": bad,
                                      "union_dump": im["u"]["dump"], "roundtrip": im["u"].get("roundtrip")})
                    nviol += 1
                    continue
        # --- the implementation against the model ---
        if sub(drop_undecodable(A)) != MA or sub(drop_undecodable(B)) != MB:
            detail = {"what": "operands differ", "a": diff(sub(drop_undecodable(A)), MA), "b": diff(sub(drop_undecodable(B)), MB)}
        elif U is None:
            if MU[0] != "Err" or MU[1] != "Missing":
                detail = {"what": "implementation panicked (%s), model says %r" % (im["u"]["panic"], MU)}
        elif MU[0] != "Ok":
            detail = {"what": "model reports %r, implementation ran" % (MU,)}
        else:
            muv = MU[1]
            MUd = model_den(muv[0:3])
            mdump = model_dump(muv[3], lex_db)
            MUd.update(dump_den(mdump, DB_TABLE))
            if drop_undecodable(U) != MUd:
                detail = {"what": "denotations of the union differ", "diff(impl, model)": diff(drop_undecodable(U), MUd)}
            elif len(muv[0]) != len(im["u"]["den"]["quads"]):
                detail = {"what": "the union stores %d quads, the model's union %d" % (len(im["u"]["den"]["quads"]), len(muv[0]))}
            elif im["a_after"] != im["a"] or im["b_after"] != im["b"]:
                detail = {"what": "union changed one of its operands"}
            elif im["u"]["dump"] != mdump:
                # which ids the union hands out is not observable through the lexical denotation (a different but
                # equally correct sweep order changes them): counted, not an alarm
                ndump += 1
        if detail:
            nmis += 1
            ctx.broken("correspondence", stream, "implementation and model differ but the Spec oracle accepts the implementation", {"case": c, "detail": detail})
        # --- distribution ---
        if U is not None:
            sizes["union_quads"] += len(U["quads"])
            sizes["union_graphs"] += len(U["graphs"])
            sizes["union_quoted"] += len(U["quoted"])
            sizes["union_seeds"] += len(U["seeds"])
            da, db_ = dict(map(tuple, im["a"]["dump"]["i2s"])), dict(map(tuple, im["b"]["dump"]["i2s"]))
            clash = any(i in db_ and db_[i] != s for i, s in da.items())
            shared = bool(set(da.values()) & set(db_.values()))
            sizes["clash_cases"] += clash
            sizes["shared_term_cases"] += shared
            sizes["equal_dictionary_cases"] += (im["a"]["dump"]["i2s"] == im["b"]["dump"]["i2s"] and bool(im["a"]["dump"]["i2s"]))
            qa = {tuple(map(repr, x)) for x in im["a"]["quoted"]}
            qb = {tuple(map(repr, x)) for x in im["b"]["quoted"]}
            sizes["shared_quoted_term_cases"] += bool(qa & qb)
            ca, cb = dict((i, tuple(k)) for i, k in im["a"]["dump"]["i2c"]), dict((i, tuple(k)) for i, k in im["b"]["dump"]["i2c"])
            # equal dictionaries, yet one quoted id stands for different quoted triples in the two operands
            sizes["quoted_id_clash_cases"] += (im["a"]["dump"]["i2s"] == im["b"]["dump"]["i2s"] and any(i in cb and cb[i] != k for i, k in ca.items()))
            sizes["roundtrip_ids_checked"] += (im["u"].get("roundtrip") or {}).get("checked", 0)
            gq = {q[3][1] for q in U["quads"] if q[3] is not None}
            sizes["empty_graph_cases"] += bool(U["graphs"] - gq)
            sizes["seed_clash_cases"] += any(k in B["seeds"] and B["seeds"][k] != v for k, v in A["seeds"].items())
            dmax = max([depth_of(t) for t in U["quoted"] if t is not None] + [0])
            sizes["max_depth"] = max(sizes["max_depth"], dmax)
            if clash and (U["quads"] & A["quads"]) and (U["quads"] & B["quads"]) and not malformed:
                ctx.nontrivial((c["ma"], c["mb"]))
    st = ctx.streams.get(stream, {})
    md = max(st.get("max_depth", 0), sizes.pop("max_depth"))
    ctx.stream(stream, cases=len(cases), malformed=nmal, union_panics=npanic, impl_model_mismatches=nmis, spec_violations=nviol,
               union_ids_differ_from_model=ndump, **sizes)
    ctx.streams[stream]["max_depth"] = md
    ctx.log("%s: %d pair cases (%d malformed, %d union panics), %d impl/model mismatches, %d spec violations" % (stream, len(cases), nmal, npanic, nmis, nviol))


def rand_bops(rng, names, gnames, n, quoted_pool):
    ops = []
    live = []
    for _ in range(n):
        r = rng.random()
        T = lambda d=None: rand_term(rng, names, rng.choice([0, 1, 2, 3, 4]) if d is None else d, quoted_pool)
        if r < 0.28:
            q = ("AddQuad", T(), T(1), T(), rng.choice(gnames))
            live.append(q)
            ops.append(q)
        elif r < 0.45:
            ops.append(("AddStar", T(), T(1), T()))
        elif r < 0.60:
            ops.append(("AddTriple", rng.choice(names), rng.choice(names), rng.choice(names)))
        elif r < 0.74:
            sn = sorted(names)[:2]     # the same few triples in both operands, so that seeds clash
            tg = ("Tagged", rng.choice(sn), rng.choice(sn), rng.choice(sn), rng.randrange(0, 17))
            k = rng.random()
            if k < 0.55:
                ops.append(tg)
            elif k < 0.75:               # the seed of a fact that is retracted afterwards
                ops.append(tg)
                ops.append(("DelQuad", tg[1], tg[2], tg[3], None))
            elif k < 0.88:               # a seed (public map) whose triple is asserted in a named graph only
                ops.append(("AddQuad", tg[1], tg[2], tg[3], rng.choice(gnames)))
                ops.append(("Seed", tg[1], tg[2], tg[3], tg[4]))
            else:                        # a seed whose triple (possibly about quoted terms) is asserted nowhere
                ops.append(("Seed", T(2), rng.choice(sn), T(2), tg[4]))
        elif r < 0.82:
            ops.append(("Create", rng.choice(gnames + names[:2])))
        elif r < 0.90:
            ops.append(("Encode", T()))
        elif live:
            q = rng.choice(live)
            ops.append(("DelQuad", q[1], q[2], q[3], q[4]))
        else:
            ops.append(("DelQuad", T(0), T(0), T(0), None))
    for o in ops:
        for x in o[1:]:
            if isinstance(x, tuple):
                quoted_pool.append(x)
    return ops


def common_prefix_pair(rng):
    """both operands start from the SAME history (one vocabulary interned in one order, so their plain dictionaries are
    equal) and then diverge only in quoted triples: equal plain ids everywhere, clashing quoted ids"""
    names, gnames = [0, 1, 2, 3, 4, 5], [20, 21]
    prefix = [("Encode", n) for n in names + gnames]
    sides = []
    first = [(0, 1, 2), (0, 1, 3)]
    rng.shuffle(first)
    for k in range(2):
        pool = []
        ops = [("AddStar", first[k], 4, 5)] if rng.random() < 0.8 else []
        ops += rand_bops(rng, names, gnames, rng.choice([1, 3, 6]), pool)
        if rng.random() < 0.5:
            ops.append(("AddQuad", rand_term(rng, names, 2), 4, rand_term(rng, names, 3), rng.choice(gnames)))
        sides.append(prefix + ops)
    return pair_case(sides[0], sides[1], rng)


def shared_quoted_pair(rng):
    """the SAME quoted triples (also nested ones) and the same facts about them occur in both operands, which met
    their vocabularies in different orders"""
    na, nb = [0, 1, 2, 3, 4, 5], [0, 1, 2, 3, 4, 5]
    rng.shuffle(nb)
    shared = []
    for _ in range(rng.choice([1, 2, 3])):
        t = rand_term(rng, na, rng.choice([1, 2, 3, 4]), shared)
        if isinstance(t, int):
            t = (t, rng.choice(na), rng.choice(na))
        shared.append(t)
    deep = [t for t in shared if depth_of(t) <= 3]
    facts = [("AddStar", t, rng.choice(na), rng.choice(na)) for t in shared]
    facts += [("AddQuad", rng.choice(na), rng.choice(na), t, 20) for t in shared if rng.random() < 0.5]
    facts += [("AddStar", (t, rng.choice(na), t), rng.choice(na), rng.choice(na)) for t in deep if rng.random() < 0.4]
    a = [("AddTriple", na[0], na[1], na[2])] * (rng.random() < 0.5) + list(facts)
    b = [("AddTriple", nb[0], nb[1], nb[2])] * (rng.random() < 0.7) + list(facts)
    rng.shuffle(b)
    a += rand_bops(rng, na, [20, 21], rng.choice([0, 2, 5]), list(shared))
    b += rand_bops(rng, nb, [21, 22], rng.choice([0, 2, 5]), list(shared))
    if rng.random() < 0.5:       # one side only mentions the shared triple without a fact about it
        b = [("Encode", shared[0])] + b
    return pair_case(a, b, rng)


def random_pair(rng, malformed=False):
    shared = [0, 1, 2, 3]
    only_a, only_b = [4, 5, 6], [7, 8, 9]
    mode = rng.random()
    if mode < 0.2:       # same vocabulary
        na, nb = shared + only_a, shared + only_a
    elif mode < 0.35:    # disjoint vocabularies
        na, nb = only_a + [10], only_b + [11]
    else:
        na, nb = shared + only_a, shared + only_b
    rng.shuffle(nb)      # b meets the terms in another order, so equal terms get different ids
    ga, gb = [20, 21, 22], [21, 22, 23]
    pool = []
    a = rand_bops(rng, na, ga, rng.choice([0, 3, 8, 14]), pool)
    b = rand_bops(rng, nb, gb, rng.choice([1, 4, 8, 14]), pool if rng.random() < 0.7 else [])
    rq, rg, rs = [], [], []
    if malformed:
        k = rng.random()
        ids = [0, 1, 2, 1000, QBIT, QBIT + 1000]
        if k < 0.5:
            rq.append((rng.choice(ids), rng.choice(ids[:3]), rng.choice(ids), rng.choice([None, 0, 1000])))
        elif k < 0.75:
            rg.append(rng.choice(ids))
        else:
            rs.append((rng.choice(ids), rng.choice(ids[:3]), rng.choice(ids), 5))
    return pair_case(a, b, rng, rq, rg, rs)


def corpus_cases(ctx):
    out = []
    d = os.path.join(vf.VERIF, "corpus", "C15")
    if os.path.isdir(d):
        for fn in sorted(os.listdir(d)):
            if fn.endswith(".json"):
                with open(os.path.join(d, fn)) as f:
                    j = json.load(f)
                out += j if isinstance(j, list) else [j]
    return out


def materialise(c, rng):
    """corpus / replay entries are stored in model form (mops | ma, mb, raw_*); build the driver form"""
    if c["kind"] == "seq":
        ops = [tuple(o) if o[0] != "EncT" else ("EncT", tuplify(o[1])) for o in c["mops"]]
        return seq_case(ops, c.get("mode", "raw"), rng, c.get("start_next"), c.get("start_next_qt"))
    fix = lambda ops: [tuple(tuplify(x) if isinstance(x, list) else x for x in o) for o in ops]
    return pair_case(fix(c["ma"]), fix(c["mb"]), rng, c.get("raw_quads_b", ()), c.get("raw_graphs_b", ()), c.get("raw_seeds_b", ()))


def driver(ctx):
    """The driver built against /repo's working tree (the normal case), or - when VERIF_REPO names another
    checkout - against that checkout through a private copy of the harness crate with its own target
    directory.  The second form exists so that mutation self-tests never touch the shared /repo."""
    if os.path.realpath(vf.REPO) == "/repo":
        return ctx.harness("c15")
    hd = os.path.join(ctx.work, "alt_harness")
    os.makedirs(os.path.join(hd, "src", "bin"), exist_ok=True)
    src = os.path.join(vf.VERIF, "harness")
    toml = open(os.path.join(src, "Cargo.toml")).read().replace('"/repo/', '"%s/' % os.path.realpath(vf.REPO))
    for rel, txt in (("Cargo.toml", toml), ("src/lib.rs", open(os.path.join(src, "src/lib.rs")).read()),
                     ("src/bin/c15.rs", open(os.path.join(src, "src/bin/c15.rs")).read())):
        dst = os.path.join(hd, rel)
        if not os.path.exists(dst) or open(dst).read() != txt:
            open(dst, "w").write(txt)
    if not os.path.exists(os.path.join(hd, "Cargo.lock")):
        import shutil
        shutil.copy(os.path.join(vf.REPO, "Cargo.lock"), os.path.join(hd, "Cargo.lock"))
    tgt = os.path.join(ctx.work, "alt_target")
    rc, out = vf.sh(["cargo", "build", "--offline", "--bin", "c15"], cwd=hd, timeout=3600,
                    env={"CARGO_NET_OFFLINE": "true", "RUSTFLAGS": "--cfg %s" % vf.GUARD, "CARGO_TARGET_DIR": tgt})
    if rc != 0:
        print(out[-4000:])
        print("[C15] harness build failed against %s (infrastructure error, not a verdict)" % vf.REPO)
        raise SystemExit(2)
    ctx.log("driver built against %s" % vf.REPO)
    return os.path.join(tgt, "debug", "c15")


def run(ctx):
    ctx.coq("Dict", "C15.v")
    binpath = driver(ctx)
    rng = ctx.rng
    # corpus first
    corp = [materialise(c, rng) for c in corpus_cases(ctx)]
    eval_seq(ctx, binpath, [c for c in corp if c["kind"] == "seq"], "corpus_seq")
    eval_pair(ctx, binpath, [c for c in corp if c["kind"] == "pair"], "corpus_pair")
    # exhaustive small scope
    L = 4 if ctx.thorough else 3
    ex = exhaustive_seq(L, rng)
    ctx.sample({"exhaustive_history": ex[len(ex) // 2]["mops"][:8]})
    eval_seq(ctx, binpath, ex, "exhaustive_len%d" % L)
    ctx.coverage["exhaustive"] = True
    ctx.coverage["exhaustive_scope"] = ("all %d histories of %d mutators (Enc over 3 terms, encode_term_star over 3 terms of depth 0-2, "
                                        "QuotedTripleStore::encode over up to 6 triples of issued ids) with Dec/DecQ/DecT on 6 ids after every step, "
                                        "alternately on the bare structs and inside a SparqlDatabase" % (len(ex), L))
    # the limits of the two id ranges (public counters set beforehand)
    eval_seq(ctx, binpath, boundary_seq(rng, ctx.thorough), "boundary_seq")
    # the string layer of encode_term_star on multi-byte text
    tx = text_seq(rng, 600 if ctx.thorough else 60)
    ctx.sample({"text_history": tx[0]["ops"][:4]})
    eval_seq(ctx, binpath, tx, "text_seq")
    # random sequences
    n = 5000 if ctx.thorough else 500
    rs = [seq_case(random_seq(rng, 60 if ctx.thorough else 40), "db" if i % 2 else "raw", rng) for i in range(n)]
    ctx.sample({"random_history": rs[0]["mops"][:10]})
    eval_seq(ctx, binpath, rs, "random_seq")
    # pairs
    n = 4000 if ctx.thorough else 400
    ps = []
    for i in range(n):
        if i % 8 == 7:
            ps.append(random_pair(rng, malformed=True))
        elif i % 4 == 0:
            ps.append(common_prefix_pair(rng))
        elif i % 4 == 1:
            ps.append(shared_quoted_pair(rng))
        else:
            ps.append(random_pair(rng))
    ctx.sample({"pair": {"a": ps[0]["ma"][:5], "b": ps[0]["mb"][:5]}})
    eval_pair(ctx, binpath, ps, "random_pair")
    finish(ctx)


def finish(ctx):
    ctx.finish(
        level="proof", rule=PROP_RULE,
        trusted_base=[
            "Coq 8.16.1 kernel; vm_compute for running the model in the correspondence check",
            "hand-written Gallina model coq/Dict/Model.v of shared/src/dictionary.rs, shared/src/quoted_triple_store.rs and "
            "reencode_term_id / SparqlDatabase::{union, encode_term_star, decode_any} in kolibrie/src/sparql_database.rs",
            "correspondence check: harness/src/bin/c15.rs (public API only, no hook), checks/c15.py generators, canonicalisation and the Python property oracle",
            "strings are named by numbers (the code only compares and hashes them); HashMap modelled as association list; "
            "u32 ids as unbounded N except the explicit quoted bit 2^31; the DatasetIndex abstracted to a quad set and a graph catalog (C04)",
            "encode_term_star's string surgery (trim, <>/\"\" stripping, splitting of << >>) is outside the model: the model starts from the parsed term",
        ],
        assumptions=["dictionary exhaustion (assert next_id < 2^31) and u32 overflow of the quoted counter are error outcomes outside the theorems",
                     "QuotedTripleStore::encode is only applied to ids handed out earlier (otherwise a store can become cyclic and decode_term does not terminate)",
                     "operands of union are well-formed: every id in quads, graph catalog and seeds is defined by the database's own dictionary / quoted store"])


def replay(ctx):
    binpath = driver(ctx)
    r = ctx.replay
    c = r.get("case")
    if c is None and r.get("broken"):          # an obligation-broken file: replay its first disagreeing case
        c = next((b.get("case") for b in r["broken"] if b.get("case")), None)
    while isinstance(c, dict) and "kind" not in c and "case" in c:
        c = c["case"]
    if not isinstance(c, dict) or "kind" not in c:
        ctx.broken("replay", "replay-file", "the replay file names no case (a proof or audit obligation broke): re-run ./check C15")
        ctx.finish(level="proof", rule=PROP_RULE)
    c = materialise(c, ctx.rng)
    if c["kind"] == "seq":
        eval_seq(ctx, binpath, [c], "replay")
    else:
        eval_pair(ctx, binpath, [c], "replay")
    ctx.finish(level="proof", rule=PROP_RULE)
