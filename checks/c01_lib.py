"""Shared by checks/c01.py and checks/c02.py: vocabulary, dataset and query generators, the SPARQL printer,
a Python transliteration of the Coq Spec (coq/Sparql/Algebra.v) used while generating and validated
against the Coq Spec on every run, the syntactic classifiers of the known findings, and the comparison of
observables.

Data model (Kolibrie's own): an RDF term is its lexical string (the dictionary does not keep term kinds);
the generators keep IRIs, integer literals and plain string literals lexically disjoint.
Query syntax tree (JSON-able lists):
  term      ["v", name] | ["c", lexical, kind]       kind: "i" IRI, "n" integer, "s" plain string
  group     ["group", [element, ...]]                 a `{ ... }`
  element   ["bgp", [[s,p,o], ...]] | group | ["union", [group, ...]] | ["graph", term, group]
            | ["values", [var,...], [[const-or-None,...], ...]] | ["sub", select]
            | ["filter", expr] | ["bind", "CONCAT", [arg,...], var]     arg: ["v",name] | ["c",lex,"s"|"n"]
  expr      ["cmp", op, ["v",x], term] | ["and", e, e] | ["or", e, e] | ["not", e]
  select    {"distinct": bool, "proj": "*" | [[kind, var, alias], ...], "from": [iri], "from_named": [iri],
             "where": group, "group_by": [var], "order_by": [[var, desc]], "limit": None | n}
"""
import itertools
import json
from fractions import Fraction

E = "http://e/"
SUBJ = [E + "s%d" % i for i in range(1, 6)]
PRED = [E + "p1", E + "p2", E + "p3"]
GRAPHS = [E + "g1", E + "g2", E + "g3"]
INTS = ["1", "2", "3", "5", "10", "12"]
STRS = ["a", "b", "zz"]
ODD = ["it's", 'q"t', "b\\s", "a' AND ?b='b"]          # constants that need escaping in the optimizer's memo key
VARS = ["a", "b", "c", "d", "e"]


def kind_of(lexical):
    if lexical.startswith(E):
        return "i"
    if is_int(lexical):
        return "n"
    return "s"


def is_int(s):
    if s.startswith("-"):
        s = s[1:]
    return s.isdigit() and len(s) > 0


def C(lexical):
    return ["c", lexical, kind_of(lexical)]


def V(name):
    return ["v", name]


# ------------------------------------------------------------------------------------------------
# datasets
# ------------------------------------------------------------------------------------------------
def gen_dataset(rng):
    def triples(n):
        ts = set()
        for _ in range(n):
            s = rng.choice(SUBJ if rng.random() < 0.93 else GRAPHS[:2])
            p = rng.choice(PRED)
            if p == PRED[2]:
                o = rng.choice(INTS)
            else:
                o = rng.choice(SUBJ[:4]) if rng.random() < 0.85 else rng.choice(STRS)
            ts.add((s, p, o))
        return sorted(ts)

    default = triples(rng.choice([0, 4, 8, 12, 12, 16, 16]))
    named = []
    for g in GRAPHS[: rng.choice([0, 1, 2, 2, 3, 3])]:
        r = rng.random()
        if r < 0.18:
            ts = []                                   # an empty, catalogued graph
        else:
            ts = triples(rng.choice([1, 4, 6, 10]))
            pool = default + [t for _, tt in named for t in tt]
            if pool and rng.random() < 0.6:           # the same triple in several graphs
                ts = sorted(set(ts) | set(tuple(x) for x in rng.sample(pool, min(len(pool), rng.choice([1, 2, 3])))))
        named.append([g, [list(t) for t in ts]])
    return {"default": [list(t) for t in default], "named": named}


class View:
    """The query dataset: default graph = duplicate-free merge of the listed graphs; named = visible catalogued graphs."""

    def __init__(self, ds, frm, from_named):
        cat = {g: [tuple(t) for t in ts] for g, ts in ds["named"]}
        if not frm and not from_named:
            self.default = sorted(set(tuple(t) for t in ds["default"]))
            self.named = dict(cat)
        else:
            d = set()
            for g in frm:
                d |= set(cat.get(g, []))
            self.default = sorted(d)
            self.named = {g: cat[g] for g in from_named if g in cat}


# ------------------------------------------------------------------------------------------------
# printing
# ------------------------------------------------------------------------------------------------
class Printer:
    def __init__(self, rng=None, noise=True):
        self.rng = rng
        self.noise = noise and rng is not None

    def ws(self):
        if not self.noise:
            return " "
        r = self.rng.random()
        if r < 0.70:
            return " "
        if r < 0.82:
            return "  "
        if r < 0.90:
            return "\n"
        if r < 0.95:
            return "\t"
        return " # c%d }{ SELECT\n" % self.rng.randrange(100)

    def kw(self, k):
        if not self.noise:
            return k
        r = self.rng.random()
        if r < 0.6:
            return k
        if r < 0.8:
            return k.lower()
        return "".join(ch.upper() if self.rng.random() < 0.5 else ch.lower() for ch in k)

    def term(self, t):
        if t[0] == "v":
            return ("?" if not self.noise or self.rng.random() < 0.85 else "$") + t[1]
        lexical, kind = t[1], t[2]
        if kind == "i":
            return "<%s>" % lexical
        if kind == "n":
            return lexical
        q = '"' if not self.noise or "'" in lexical or self.rng.random() < 0.8 else "'"
        return q + lexical.replace("\\", "\\\\").replace(q, "\\" + q) + q

    def expr(self, e):
        w = self.ws
        if e[0] == "cmp":
            return "%s%s%s%s%s" % (self.term(e[2]), w(), e[1], w(), self.term(e[3]))
        if e[0] == "and":
            return "(%s%s&&%s%s)" % (self.expr(e[1]), w(), w(), self.expr(e[2]))
        if e[0] == "or":
            return "(%s%s||%s%s)" % (self.expr(e[1]), w(), w(), self.expr(e[2]))
        if e[0] == "not":
            return "!%s(%s)" % ("" if not self.noise else self.rng.choice(["", " "]), self.expr(e[1]))
        raise ValueError(e)

    def element(self, e):
        w = self.ws
        t = e[0]
        if t == "bgp":
            return w().join("%s%s%s%s%s%s." % (self.term(s), w(), self.term(p), w(), self.term(o), w()) for s, p, o in e[1])
        if t == "group":
            return self.group(e)
        if t == "union":
            return (w() + self.kw("UNION") + w()).join(self.group(g) for g in e[1])
        if t == "graph":
            return "%s%s%s%s%s" % (self.kw("GRAPH"), w(), self.term(e[1]), w(), self.group(e[2]))
        if t == "values":
            vs, rows = e[1], e[2]
            val = lambda x: self.kw("UNDEF") if x is None else self.term(x)
            if len(vs) == 1:    # `VALUES (?x) { (1) }` is rejected by the parser (reported to C16); the bare form is used
                return "%s%s?%s%s{%s%s%s}" % (self.kw("VALUES"), w(), vs[0], w(), w(), w().join(val(r[0]) for r in rows), w())
            head = "(" + w().join("?" + v for v in vs) + ")"
            body = w().join("(" + w().join(val(x) for x in r) + ")" for r in rows)
            return "%s%s%s%s{%s%s%s}" % (self.kw("VALUES"), w(), head, w(), w(), body, w())
        if t == "sub":
            return "{%s%s%s}" % (w(), self.select(e[1], sub=True), w())
        if t == "filter":
            return "%s%s(%s%s%s)" % (self.kw("FILTER"), w(), w(), self.expr(e[1]), w())
        if t == "bind":
            args = ("," + w()).join(self.term(a) if a[0] == "v" else ('"%s"' % a[1] if a[2] == "s" else a[1]) for a in e[2])
            return "%s%s(%s%s(%s)%s%s%s?%s%s)" % (self.kw("BIND"), w(), w(), self.kw("CONCAT"), args, w(), self.kw("AS"), w(), e[3], w())
        raise ValueError(t)

    def group(self, g):
        w = self.ws
        return "{" + w() + w().join(self.element(e) for e in g[1]) + w() + "}"

    def select(self, q, sub=False):
        w = self.ws
        out = [self.kw("SELECT")]
        if q["distinct"]:
            out.append(self.kw("DISTINCT"))
        if q["proj"] == "*":
            out.append("*")
        else:
            for kind, v, alias in q["proj"]:
                if kind == "VAR":
                    out.append("?" + v)
                else:
                    out.append("(%s(?%s)%s%s%s?%s)" % (self.kw(kind), v, w(), self.kw("AS"), w(), alias))
        if not sub:
            for g in q.get("from", []):
                out.append("%s%s<%s>" % (self.kw("FROM"), w(), g))
            for g in q.get("from_named", []):
                out.append("%s%s%s%s<%s>" % (self.kw("FROM"), w(), self.kw("NAMED"), w(), g))
        out.append(self.kw("WHERE") if (not self.noise or self.rng.random() < 0.8) else "")
        out.append(self.group(q["where"]))
        if q["group_by"]:
            out.append("%s%s%s%s%s" % (self.kw("GROUP"), w(), self.kw("BY"), w(), w().join("?" + v for v in q["group_by"])))
        if q["order_by"]:
            ks = []
            for v, desc in q["order_by"]:
                if desc:
                    ks.append("%s(?%s)" % (self.kw("DESC"), v))
                elif self.noise and self.rng.random() < 0.3:
                    ks.append("%s(?%s)" % (self.kw("ASC"), v))
                else:
                    ks.append("?" + v)
            out.append("%s%s%s%s%s" % (self.kw("ORDER"), w(), self.kw("BY"), w(), w().join(ks)))
        if q["limit"] is not None:
            out.append("%s%s%d" % (self.kw("LIMIT"), w(), q["limit"]))
        return w().join(x for x in out if x != "")


def print_query(q, rng=None, noise=True):
    return Printer(rng, noise).select(q)


# ------------------------------------------------------------------------------------------------
# static analysis: variables in scope (poss) / certainly bound (cert), column order of SELECT *
# ------------------------------------------------------------------------------------------------
def tp_vars(tp):
    return [t[1] for t in tp if t[0] == "v"]


def expr_vars(e):
    if e[0] == "cmp":
        return [t[1] for t in (e[2], e[3]) if t[0] == "v"]
    if e[0] == "not":
        return expr_vars(e[1])
    return expr_vars(e[1]) + expr_vars(e[2])


def sel_out(q):
    """(cert, poss) of the variables a (sub-)select exposes."""
    ci, pi = scope(q["where"])
    if q["proj"] == "*":
        return set(ci), set(pi)
    cert, poss = set(), set()
    for kind, v, alias in q["proj"]:
        if kind == "VAR":
            poss.add(v)                 # a projected variable is in scope of the sub-select
            if v in ci:
                cert.add(v)
        else:
            poss.add(alias)
            if kind == "SUM" or (q["group_by"] and v in ci):
                cert.add(alias)
    return cert, poss


def scope(e):
    """(cert, poss) of a pattern element: poss = the variables in scope (SPARQL 18.2.1), which over-approximates the
    variables a solution may bind; cert = variables every solution certainly binds."""
    t = e[0]
    if t == "bgp":
        vs = set(v for tp in e[1] for v in tp_vars(tp))
        return set(vs), set(vs)
    if t == "group":
        cert, poss = set(), set()
        for x in e[1]:
            if x[0] == "filter":
                continue
            if x[0] == "bind":
                args = [a[1] for a in x[2] if a[0] == "v"]
                if all(a in cert for a in args) and x[3] not in poss:
                    cert.add(x[3])
                poss.add(x[3])
                continue
            c, p = scope(x)
            cert |= c
            poss |= p
        return cert, poss
    if t == "union":
        cs, ps = zip(*[scope(g) for g in e[1]])
        return set.intersection(*[set(c) for c in cs]), set.union(*[set(p) for p in ps])
    if t == "graph":
        c, p = scope(e[2])
        if e[1][0] == "v":
            return c | {e[1][1]}, p | {e[1][1]}
        return c, p
    if t == "values":
        vs, rows = e[1], e[2]
        cert = set(v for i, v in enumerate(vs) if all(r[i] is not None for r in rows))
        return cert, set(vs)            # every listed variable is in scope (18.2.1), UNDEF or not
    if t == "sub":
        return sel_out(e[1])
    if t in ("filter", "bind"):
        return set(), ({e[3]} if t == "bind" else set())
    raise ValueError(t)


def star_columns(e, out=None):
    """Variables in order of first syntactic occurrence (the column order of SELECT *)."""
    if out is None:
        out = []

    def push(v):
        if v not in out:
            out.append(v)

    t = e[0]
    if t == "bgp":
        for tp in e[1]:
            for v in tp_vars(tp):
                push(v)
    elif t == "group" or t == "union":
        for x in e[1]:
            star_columns(x, out)
    elif t == "graph":
        if e[1][0] == "v":
            push(e[1][1])
        star_columns(e[2], out)
    elif t == "bind":
        push(e[3])
    elif t == "values":
        for v in e[1]:
            push(v)
    elif t == "sub":
        q = e[1]
        if q["proj"] == "*":
            star_columns(q["where"], out)
        else:
            for kind, v, alias in q["proj"]:
                push(v if kind == "VAR" else alias)
    return out


def columns(q):
    if q["proj"] == "*":
        return star_columns(q["where"])
    return [v if kind == "VAR" else alias for kind, v, alias in q["proj"]]


# ------------------------------------------------------------------------------------------------
# classifiers of the known findings (mirrored by known_C01 in coq/Sparql/Classes.v)
# ------------------------------------------------------------------------------------------------
def classify(q):
    """Returns the set of known-class names the query falls in, and whether it is wellscoped."""
    found = set()
    ws = [True]

    def sel(q, under_var_graph):
        walk(q["where"], set(), under_var_graph)

    def walk(e, inb, uvg):
        """inb: variables that rows fed into this element by an enclosing input-propagating join may bind"""
        t = e[0]
        if t == "group":
            cert, poss = set(), set()
            filters = []
            for x in e[1]:
                if x[0] == "filter":
                    filters.append(x[1])
                    continue
                if x[0] == "bind":
                    args = [a[1] for a in x[2] if a[0] == "v"]
                    for a in args:
                        if a not in poss:
                            ws[0] = False
                        if a not in cert and a in inb:
                            found.add("undef-filter-sibling")
                    if x[3] in poss:
                        ws[0] = False              # illegal in SPARQL; never generated
                    if all(a in cert for a in args):
                        cert.add(x[3])
                    poss.add(x[3])
                    continue
                walk(x, inb | poss, uvg)
                c, p = scope(x)
                cert |= c
                poss |= p
            for f in filters:
                vs = set(expr_vars(f))
                for v in vs:
                    if v not in poss:
                        ws[0] = False
                    if v not in cert and v in inb:
                        found.add("undef-filter-sibling")
        elif t == "union":
            for g in e[1]:
                walk(g, inb, uvg)
        elif t == "graph":
            if e[1][0] == "v":
                walk(e[2], inb | {e[1][1]}, True)
            else:
                walk(e[2], inb, False)
        elif t == "sub":
            if uvg:
                found.add("subselect-in-graph-var")
            sel(e[1], uvg)
        elif t == "filter":
            # a filter that is the only element of its group: its group has no variable in scope
            for v in expr_vars(e[1]):
                ws[0] = False
        elif t == "bind":
            walk(["group", [e]], inb, uvg)

    sel(q, False)
    return found, ws[0]


# ------------------------------------------------------------------------------------------------
# the Spec, transliterated: SPARQL 1.1 section 18 on the fragment
# ------------------------------------------------------------------------------------------------
def compatible(a, b):
    for k, v in a.items():
        if k in b and b[k] != v:
            return False
    return True


def join(A, B):
    out = []
    for a in A:
        for b in B:
            if compatible(a, b):
                m = dict(a)
                m.update(b)
                out.append(m)
    return out


def num(s):
    return int(s) if is_int(s) else None


def eval_expr(e, mu):
    """three-valued: True / False / None (error)"""
    if e[0] == "cmp":
        op = e[1]
        l = mu.get(e[2][1])
        r = mu.get(e[3][1]) if e[3][0] == "v" else e[3][1]
        if l is None or r is None:
            return None
        if op == "=":
            return l == r
        if op == "!=":
            return l != r
        a, b = num(l), num(r)
        if a is None or b is None:
            return None
        return {"<": a < b, "<=": a <= b, ">": a > b, ">=": a >= b}[op]
    if e[0] == "not":
        x = eval_expr(e[1], mu)
        return None if x is None else (not x)
    a, b = eval_expr(e[1], mu), eval_expr(e[2], mu)
    if e[0] == "and":
        if a is False or b is False:
            return False
        if a is None or b is None:
            return None
        return True
    if e[0] == "or":
        if a is True or b is True:
            return True
        if a is None or b is None:
            return None
        return False
    raise ValueError(e)


def eval_bgp(tps, triples):
    rows = [{}]
    for tp in tps:
        nxt = []
        for mu in rows:
            for tr in triples:
                m = mu
                ok = True
                for t, val in zip(tp, tr):
                    if t[0] == "c":
                        if t[1] != val:
                            ok = False
                            break
                    else:
                        cur = m.get(t[1])
                        if cur is None:
                            if m is mu:
                                m = dict(mu)
                            m[t[1]] = val
                        elif cur != val:
                            ok = False
                            break
                if ok:
                    nxt.append(m if m is not mu else dict(mu))
        rows = nxt
    return rows


def eval_elem(e, view, active):
    t = e[0]
    if t == "bgp":
        return eval_bgp(e[1], view.default if active is None else view.named[active])
    if t == "group":
        G = [{}]
        filters = []
        for x in e[1]:
            if x[0] == "filter":
                filters.append(x[1])
            elif x[0] == "bind":
                out = []
                for mu in G:
                    parts = []
                    for a in x[2]:
                        parts.append(mu.get(a[1]) if a[0] == "v" else a[1])
                    if x[3] in mu or any(p is None for p in parts):
                        out.append(mu)          # error (or illegal rebinding): the variable stays as it is
                    else:
                        m = dict(mu)
                        m[x[3]] = "".join(parts)
                        out.append(m)
                G = out
            else:
                G = join(G, eval_elem(x, view, active))
        for f in filters:
            G = [mu for mu in G if eval_expr(f, mu) is True]
        return G
    if t == "union":
        out = []
        for g in e[1]:
            out += eval_elem(g, view, active)
        return out
    if t == "graph":
        if e[1][0] == "c":
            g = e[1][1]
            if g not in view.named:
                return []
            return eval_elem(e[2], view, g)
        v = e[1][1]
        out = []
        for g in sorted(view.named):
            out += join(eval_elem(e[2], view, g), [{v: g}])
        return out
    if t == "values":
        vs, rows = e[1], e[2]
        return [{v: x[1] for v, x in zip(vs, r) if x is not None} for r in rows]
    if t == "sub":
        rows, _ = eval_select(e[1], view, active)
        return rows
    if t == "filter":
        return [mu for mu in [{}] if eval_expr(e[1], mu) is True]
    if t == "bind":
        return eval_elem(["group", [e]], view, active)
    raise ValueError(t)


def key_cmp(a, b):
    """order of two key values: unbound lowest, integers numerically, everything else by code point"""
    if a is None or b is None:
        return (a is not None) - (b is not None)
    x, y = num(a), num(b)
    if x is not None and y is not None:
        return (x > y) - (x < y)
    return (a > b) - (a < b)


def order_cmp(order_by):
    def cmp(r1, r2):
        for v, desc in order_by:
            c = key_cmp(r1.get(v), r2.get(v))
            if c != 0:
                return -c if desc else c
        return 0
    return cmp


def fmt_num(x):
    """lexical form of an aggregate value (exact)"""
    if isinstance(x, Fraction):
        if x.denominator == 1:
            return str(x.numerator)
        return "%d/%d" % (x.numerator, x.denominator)
    return str(x)


def aggregate(rows, q):
    aggs = [p for p in q["proj"] if p != "*" and p[0] != "VAR"] if q["proj"] != "*" else []
    if not aggs and not q["group_by"]:
        return rows
    groups = {}
    order = []
    for mu in rows:
        k = tuple(mu.get(v) for v in q["group_by"])
        if k not in groups:
            groups[k] = []
            order.append(k)
        groups[k].append(mu)
    if not groups and not q["group_by"]:
        groups[()] = []
        order.append(())
    out = []
    for k in order:
        grp = groups[k]
        r = {v: x for v, x in zip(q["group_by"], k) if x is not None}
        for kind, v, alias in aggs:
            vals = [num(mu[v]) for mu in grp if v in mu and num(mu[v]) is not None]
            val = None
            if kind == "SUM":
                val = fmt_num(sum(vals))
            elif kind == "MIN" and vals:
                val = fmt_num(min(vals))
            elif kind == "MAX" and vals:
                val = fmt_num(max(vals))
            elif kind == "AVG" and vals:
                val = fmt_num(Fraction(sum(vals), len(vals)))
            elif kind == "COUNT":
                val = str(len([1 for mu in grp if v in mu]))
            if val is not None:
                r[alias] = val
        out.append(r)
    return out


def eval_select(q, view, active):
    """Returns (rows after all modifiers as dicts restricted to the projection, info) where info carries what the
    comparison of a top-level answer needs: the full ordered, projected, distinct-ed sequence before LIMIT."""
    import functools
    rows = eval_elem(q["where"], view, active)
    rows = aggregate(rows, q)
    if q["order_by"]:
        rows = sorted(rows, key=functools.cmp_to_key(order_cmp(q["order_by"])))
    cols = columns(q)
    proj = [{v: mu[v] for v in cols if v in mu} for mu in rows]
    if q["distinct"]:
        seen, d = set(), []
        for mu in proj:
            k = tuple(sorted(mu.items()))
            if k not in seen:
                seen.add(k)
                d.append(mu)
        proj = d
    full = proj
    if q["limit"] is not None:
        proj = proj[: q["limit"]]
    return proj, {"full": full, "cols": cols}


def spec_answer(ds, q):
    view = View(ds, q.get("from", []), q.get("from_named", []))
    rows, info = eval_select(q, view, None)
    cols = info["cols"]
    tab = lambda rs: [[mu.get(c, "") for c in cols] for mu in rs]
    return {"cols": cols, "full": tab(info["full"]), "rows": tab(rows)}


# ------------------------------------------------------------------------------------------------
# comparison of observables
# ------------------------------------------------------------------------------------------------
def is_agg_name(c):
    """aggregate aliases are ?x<n> (sub-selects) and ?y<n> (top level) by the generator's convention"""
    return len(c) >= 2 and c[0] in "xy" and c[1:].isdigit()


def cell_eq(a, b, is_agg):
    """a: implementation cell, b: Spec cell.  AVG columns (top level only) are compared as numbers within 1e-9 (the engine
    prints the f64 quotient, the Spec the exact rational); every other cell, SUM / MIN / MAX included, lexically."""
    if a == b:
        return True
    if is_agg and a != "" and b != "":
        try:
            return abs(float(Fraction(b)) - float(a)) < 1e-9
        except Exception:
            return False
    return False


def canon_rows(rows, q):
    """impl cells of AVG columns are floats printed by Rust; map them onto the Spec's exact lexical form when equal"""
    return rows


def multiset_sub(small, big, avg_cols):
    """is `small` a sub-multiset of `big` (cells compared with cell_eq)?"""
    pool = list(big)
    for r in small:
        for i, b in enumerate(pool):
            if len(b) == len(r) and all(cell_eq(x, y, j in avg_cols) for j, (x, y) in enumerate(zip(r, b))):
                pool.pop(i)
                break
        else:
            return False, None
    return True, pool


def check_answer(q, spec, impl_rows):
    """None when the implementation's rows are an answer the Spec allows, else a description.
    - no LIMIT: the multiset of rows equals the Spec's; under ORDER BY the sequence is sorted by the keys;
    - LIMIT n: min(n, |full|) rows, a sub-multiset of the full answer; under ORDER BY sorted, and no left-out
      row sorts strictly before the last returned one (a prefix of some legal order)."""
    cols = spec["cols"]
    avg_cols = set(i for i, (kind, v, alias) in enumerate(q["proj"]) if kind == "AVG") if q["proj"] != "*" else set()
    full = spec["full"]
    n = len(full) if q["limit"] is None else min(q["limit"], len(full))
    if any(len(r) != len(cols) for r in impl_rows):
        return "row width differs from the projection (%d columns)" % len(cols)
    if len(impl_rows) != n:
        return "expected %d rows, got %d" % (n, len(impl_rows))
    ok, rest = multiset_sub(impl_rows, full, avg_cols)
    if not ok:
        return "returned rows are not a sub-multiset of the algebra's answer"
    if q["order_by"]:
        idx = [(cols.index(v), desc) for v, desc in q["order_by"] if v in cols]

        def cmp(r1, r2):
            for i, desc in idx:
                c = key_cmp(r1[i] or None, r2[i] or None)
                if c != 0:
                    return -c if desc else c
            return 0
        for a, b in zip(impl_rows, impl_rows[1:]):
            if cmp(a, b) > 0:
                return "rows are not sorted by the ORDER BY keys"
        if impl_rows and rest:
            last = impl_rows[-1]
            for r in rest:
                if cmp(r, last) < 0:
                    return "LIMIT cut is not a prefix of a legal order (a left-out row sorts before the last returned row)"
    return None


# ------------------------------------------------------------------------------------------------
# query generator
# ------------------------------------------------------------------------------------------------
class Gen:
    """Witness-guided generator: `wit` is an assignment that satisfies everything generated so far on the
    conjunctive path, so that joins, filters and VALUES mostly keep at least one solution."""

    def __init__(self, rng, ds, max_depth=4):
        self.rng = rng
        self.ds = ds
        self.max_depth = max_depth
        self.ops = {}
        self.frm, self.from_named = [], []
        cat = [g for g, _ in ds["named"]]
        if cat and rng.random() < 0.2:
            k = rng.random()
            if k < 0.4:
                self.frm = rng.sample(cat, rng.choice([1, min(2, len(cat))]))
            elif k < 0.7:
                self.from_named = rng.sample(cat, rng.choice([1, min(2, len(cat))]))
            else:
                self.frm = rng.sample(cat, rng.choice([1, min(2, len(cat))]))
                self.from_named = rng.sample(cat, rng.choice([1, min(2, len(cat))]))
            self.count("from")
        self.view = View(ds, self.frm, self.from_named)
        self.named = sorted(self.view.named)

    def count(self, k, n=1):
        self.ops[k] = self.ops.get(k, 0) + n

    def triples_of(self, active):
        if active is None:
            return self.view.default
        return self.view.named.get(active, [])

    def pattern(self, wit, active):
        """one triple pattern, obtained by generalising a data triple that agrees with the witness assignment"""
        rng = self.rng
        ts = self.triples_of(active)
        tr = None
        if ts and rng.random() < 0.93:
            vals = set(wit.values())
            conn = [t for t in ts if any(x in vals for x in t)]
            tr = rng.choice(conn if conn and rng.random() < 0.8 else ts)
        if tr is None:
            tr = [rng.choice(SUBJ), rng.choice(PRED), rng.choice(SUBJ + INTS)]
        tp = []
        for pos, val in enumerate(tr):
            pv = [0.75, 0.2, 0.7][pos]
            if rng.random() < pv:
                same = [v for v, x in wit.items() if x == val and v in VARS]
                free = [v for v in VARS if v not in wit]
                if same and rng.random() < 0.7:
                    v = rng.choice(same)
                elif free:
                    v = rng.choice(free)
                    wit[v] = val
                elif same:
                    v = rng.choice(same)
                else:
                    tp.append(C(val))
                    continue
                tp.append(V(v))
            else:
                tp.append(C(val))
        return tp

    def atom(self, wit, scope_vars):
        rng = self.rng
        v = rng.choice(scope_vars)
        val = wit.get(v)
        r = rng.random()
        if val is not None and is_int(val) and r < 0.5:
            op = rng.choice(["<", "<=", ">", ">="])
            others = [w for w in scope_vars if w != v and wit.get(w) is not None and is_int(wit[w])]
            if others and rng.random() < 0.3:
                return ["cmp", op, V(v), V(rng.choice(others))]
            return ["cmp", op, V(v), C(rng.choice(INTS))]
        if r < 0.2 and len(scope_vars) > 1:
            w = rng.choice([w for w in scope_vars if w != v])
            return ["cmp", rng.choice(["=", "!="]), V(v), V(w)]
        op = "=" if rng.random() < 0.5 else "!="
        if val is not None and rng.random() < 0.7:
            return ["cmp", op, V(v), C(val)]
        if rng.random() < 0.08:
            return ["cmp", op, V(v), C(rng.choice(ODD))]
        return ["cmp", op, V(v), C(rng.choice(SUBJ + INTS + STRS))]

    def expr(self, wit, scope_vars, depth=0):
        rng = self.rng
        r = rng.random()
        if depth < 2 and r < 0.12:
            e = ["and", self.expr(wit, scope_vars, depth + 1), self.expr(wit, scope_vars, depth + 1)]
        elif depth < 2 and r < 0.24:
            e = ["or", self.expr(wit, scope_vars, depth + 1), self.expr(wit, scope_vars, depth + 1)]
        elif depth < 2 and r < 0.36:
            e = ["not", self.expr(wit, scope_vars, depth + 1)]
        else:
            e = self.atom(wit, scope_vars)
        if depth == 0 and eval_expr(e, wit) is not True and rng.random() < 0.75:
            # most filters keep the witness solution
            for _ in range(6):
                e2 = self.atom(wit, scope_vars)
                if eval_expr(e2, wit) is True:
                    return e2 if rng.random() < 0.6 else ["or", e, e2]
            return ["not", e] if eval_expr(e, wit) is False else e
        return e

    def values(self, wit):
        rng = self.rng
        n = rng.choice([1, 1, 2])
        vs = []
        for _ in range(n):
            used = [v for v in VARS if v in wit]
            new = [v for v in VARS if v not in wit]
            v = rng.choice(used) if used and (not new or rng.random() < 0.7) else rng.choice(new or VARS)
            if v not in vs:
                vs.append(v)
        rows = []
        for _ in range(rng.choice([1, 2, 2, 3])):
            row = []
            for v in vs:
                r = rng.random()
                if r < 0.2:
                    row.append(None)
                elif v in wit and r < 0.7:
                    row.append(C(wit[v]))
                else:
                    row.append(C(rng.choice(SUBJ[:3] + INTS[:3] + STRS[:1])))
            rows.append(row)
        good = rng.randrange(len(rows))             # one row agrees with the witness
        rows[good] = [None if (x is None or v not in wit) and rng.random() < 0.3 else C(wit[v]) if v in wit else x for v, x in zip(vs, rows[good])]
        for v, x in zip(vs, rows[good]):
            if x is not None:
                wit.setdefault(v, x[1])
        self.count("values")
        if any(x is None for r in rows for x in r):
            self.count("values_undef")
        return ["values", vs, rows]

    def scanfree_body(self, wit):
        """a GRAPH body without any triple pattern: the empty group or VALUES only (graph-existence patterns)"""
        self.count("graph_body_without_triples")
        if self.rng.random() < 0.5:
            return ["group", []]
        return ["group", [self.values(wit)]]

    def group(self, depth, wit, active):
        rng = self.rng
        elems = []
        n = rng.choice([1, 2, 2, 3]) if depth == 0 else rng.choice([1, 1, 2])
        for _ in range(n):
            r = rng.random()
            compound = 0.62 if depth == 0 else (0.5 if depth == 1 else 0.35)
            if depth >= self.max_depth - 1 or r > compound:
                k = rng.choice([1, 1, 2, 2, 3])
                elems.append(["bgp", [self.pattern(wit, active) for _ in range(k)]])
                self.count("bgp")
                self.count("triple_patterns", k)
                continue
            r = rng.random()
            if r < 0.22:
                bs = []
                first = True
                for _ in range(rng.choice([2, 2, 3])):
                    w2 = wit if first else dict(wit)
                    first = False
                    bs.append(self.group(depth + 1, w2, active))
                rng.shuffle(bs)
                elems.append(["union", bs])
                self.count("union")
            elif r < 0.50:
                if self.named and rng.random() < 0.45:
                    g = rng.choice(self.named + ([E + "gx"] if rng.random() < 0.08 else []))
                    elems.append(["graph", C(g), self.scanfree_body(wit) if rng.random() < 0.15 else self.group(depth + 1, wit, g)])
                    self.count("graph_iri")
                else:
                    free = [v for v in VARS if v not in wit]
                    gv = "g" if rng.random() < 0.8 or not free else rng.choice(free)
                    if wit.get(gv) in self.named:
                        inner = wit[gv]
                    elif self.named and gv not in wit:
                        nonempty = [g for g in self.named if self.view.named[g]]
                        inner = rng.choice(nonempty if nonempty and rng.random() < 0.85 else self.named)
                        wit[gv] = inner
                    else:
                        inner = E + "gx"
                        wit.setdefault(gv, inner)
                    elems.append(["graph", V(gv), self.scanfree_body(wit) if rng.random() < 0.15 else self.group(depth + 1, wit, inner)])
                    self.count("graph_var")
            elif r < 0.68:
                elems.append(self.values(wit))
            elif r < 0.88:
                w2 = dict(wit)
                sub = self.select(depth + 1, w2, active, top=False)
                for v in sel_out(sub)[1]:
                    if v in w2:
                        wit.setdefault(v, w2[v])
                elems.append(["sub", sub])
                self.count("subselect")
            else:
                elems.append(self.group(depth + 1, wit, active))
                self.count("nested_group")
        cert, poss = scope(["group", elems])
        if rng.random() < 0.18:
            pos = rng.randrange(len(elems) + 1)
            c0, p0 = scope(["group", elems[:pos]])
            args = []
            for _ in range(rng.choice([1, 2])):
                pool = sorted(c0) if c0 and rng.random() < 0.9 else sorted(p0)
                if pool and rng.random() < 0.7:
                    args.append(V(rng.choice(pool)))
                else:
                    args.append(["c", rng.choice(STRS + ["x", "7"]), "s"])
            later = set()
            for x in elems[pos:]:
                later |= scope(x)[1] if x[0] != "filter" else set()
            free = [v for v in VARS + ["f"] if v not in p0 and v not in later and (v not in wit or rng.random() < 0.1)]
            if free:
                tgt = rng.choice(free)
                elems.insert(pos, ["bind", "CONCAT", args, tgt])
                parts = [wit.get(a[1]) if a[0] == "v" else a[1] for a in args]
                if all(p is not None for p in parts):
                    wit.setdefault(tgt, "".join(parts))
                self.count("bind")
                cert, poss = scope(["group", elems])
        nf = rng.choice([0, 0, 0, 1, 1, 2]) if poss else 0
        for _ in range(nf):
            pool = sorted(cert) if cert and rng.random() < 0.85 else sorted(poss)
            f = ["filter", self.expr(wit, pool)]
            elems.insert(rng.randrange(len(elems) + 1), f)
            self.count("filter")
        return ["group", elems]

    def select(self, depth, wit, active, top):
        rng = self.rng
        where = self.group(depth, wit, active)
        cert, poss = scope(where)
        cols = star_columns(where)
        q = {"distinct": False, "proj": "*", "from": [], "from_named": [], "where": where, "group_by": [], "order_by": [], "limit": None}
        intvars = [v for v in cols if v in cert and wit.get(v) is not None and is_int(wit[v])]
        r = rng.random()
        if r < (0.16 if top else 0.25) and intvars:
            keys = [v for v in cols if v in poss and v not in intvars]
            gb = rng.sample(keys, min(len(keys), rng.choice([0, 1, 1, 2])))
            proj = [["VAR", v, None] for v in gb]
            for i in range(rng.choice([1, 1, 2])):
                # AVG only at the top level: its f64 value never flows back into a join or filter
                proj.append([rng.choice(["SUM", "MIN", "MAX", "AVG"] if top else ["SUM", "MIN", "MAX"]), rng.choice(intvars), ("y%d" if top else "x%d") % i])
            q["group_by"] = gb
            q["proj"] = proj
            self.count("aggregate")
        elif r < 0.78 and cols:
            k = rng.randrange(1, len(cols) + 1)
            q["proj"] = [["VAR", v, None] for v in rng.sample(cols, k)]
        if top and q["proj"] != "*" and not q["group_by"] and rng.random() < 0.03:
            q["group_by"] = [v for _, v, _ in q["proj"]]        # GROUP BY without an aggregate: one row per group (repaired by bc03712; only group keys are projected)
            self.count("group_by_no_aggregate")
        outc = columns(q)
        if rng.random() < 0.3:
            q["distinct"] = True
            self.count("distinct")
        if top:
            avg = set(alias for kind, v, alias in (q["proj"] if q["proj"] != "*" else []) if kind == "AVG")
            okeys = [v for v in outc if v not in avg]
            if rng.random() < 0.35 and okeys:
                ks = rng.sample(okeys, min(len(okeys), rng.choice([1, 1, 2])))
                q["order_by"] = [[v, rng.random() < 0.4] for v in ks]
                self.count("order_by")
            if rng.random() < 0.25:
                q["limit"] = rng.choice([0, 1, 2, 3, 5])
                self.count("limit")
        else:
            if rng.random() < 0.35 and outc:
                ks = list(outc)
                rng.shuffle(ks)
                q["order_by"] = [[v, rng.random() < 0.4] for v in ks]
                self.count("order_by")
                if rng.random() < 0.7:
                    q["limit"] = rng.choice([1, 2, 2, 3])
                    self.count("limit")
                elif len(ks) > 1 and rng.random() < 0.6:
                    # without a cut the order of a sub-select is unobservable: keys over a STRICT subset of the projection
                    # (ties on the keys; DISTINCT must still compare whole rows)
                    q["order_by"] = q["order_by"][:rng.randrange(1, len(ks))]
                    self.count("order_by_strict_subset")
        return q

    def query(self):
        wit = {}
        q = self.select(0, wit, None, top=True)
        q["from"] = list(self.frm)
        q["from_named"] = list(self.from_named)
        return q


def homogeneous(values):
    """a key column the ORDER BY comparator orders totally and as SPARQL does: all integers, or no value that
    Rust would parse as a number, and all of one kind (IRIs or plain strings)"""
    vals = [v for v in values if v not in (None, "")]
    if all(is_int(v) for v in vals):
        return True
    if any(looks_numeric(v) for v in vals):
        return False
    kinds = set(kind_of(v) for v in vals)
    return len(kinds) <= 1


def looks_numeric(s):
    try:
        float(s)
        return True
    except ValueError:
        return s.lower() in ("inf", "+inf", "-inf", "nan", "infinity", "+infinity", "-infinity")


def all_selects(q):
    out = [q]

    def walk(e):
        if e[0] in ("group", "union"):
            for x in e[1]:
                walk(x)
        elif e[0] == "graph":
            walk(e[2])
        elif e[0] == "sub":
            out.extend(all_selects(e[1]))
    walk(q["where"])
    return out


def in_fragment(ds, q):
    """Restrictions of the generated fragment that cannot be decided syntactically (stated in notes/C01.md):
    ORDER BY keys range over homogeneous columns; aggregated variables are integers in every row; ordering
    comparisons in filters see integers only.  Returns None when inside the fragment, else the reason."""
    view = View(ds, q.get("from", []), q.get("from_named", []))
    actives = [None] + sorted(view.named)
    for s in all_selects(q):
        for a in actives:
            try:
                rows = eval_elem(s["where"], view, a)
            except KeyError:
                continue
            agg = aggregate(rows, s)
            for v, _ in s["order_by"]:
                if not homogeneous([mu.get(v) for mu in agg]):
                    return "order-by column ?%s is not homogeneous" % v
            if s["proj"] != "*":
                for kind, v, alias in s["proj"]:
                    if kind != "VAR":
                        if any(v in mu and not is_int(mu[v]) for mu in rows) or any(v not in mu for mu in rows):
                            return "aggregated variable ?%s is not an integer in every row" % v
                        if kind == "AVG" and not rows and not s["group_by"]:
                            return "AVG over an empty group"
            if s["limit"] is not None and s is not q:
                cols = columns(s)
                if set(v for v, _ in s["order_by"]) != set(cols):
                    return "LIMIT in a sub-select without an ORDER BY over all its projected variables"
    bad = [None]

    def chk(e, view, active):
        if e[0] == "group":
            for x in e[1]:
                if x[0] == "filter":
                    pass
                else:
                    chk(x, view, active)
            fs = [x[1] for x in e[1] if x[0] == "filter"]
            if fs:
                rows = eval_elem(["group", [x for x in e[1] if x[0] != "filter"]], view, active)
                for f in fs:
                    for c in cmps(f):
                        if c[1] in ("<", "<=", ">", ">="):
                            for mu in rows:
                                for t in (c[2], c[3]):
                                    val = mu.get(t[1]) if t[0] == "v" else t[1]
                                    if val is not None and not is_int(val):
                                        bad[0] = "ordering comparison on a non-integer term"
        elif e[0] == "union":
            for g in e[1]:
                chk(g, view, active)
        elif e[0] == "graph":
            if e[1][0] == "c":
                if e[1][1] in view.named:
                    chk(e[2], view, e[1][1])
            else:
                for g in sorted(view.named):
                    chk(e[2], view, g)
        elif e[0] == "sub":
            chk(e[1]["where"], view, active)

    chk(q["where"], view, None)
    return bad[0]


def cmps(f):
    if f[0] == "cmp":
        return [f]
    if f[0] == "not":
        return cmps(f[1])
    return cmps(f[1]) + cmps(f[2])


def bgp_permutations(q, limit=24):
    """every query obtained by permuting the triple patterns of one `bgp` element (all for <= 4 patterns)"""
    out = []

    def paths(e, path):
        if e[0] == "bgp":
            if len(e[1]) > 1:
                yield path
        elif e[0] in ("group", "union"):
            for i, x in enumerate(e[1]):
                yield from paths(x, path + [1, i])
        elif e[0] == "graph":
            yield from paths(e[2], path + [2])
        elif e[0] == "sub":
            yield from paths(e[1]["where"], path + [1, "where"])

    for p in paths(q["where"], []):
        base = json.loads(json.dumps(q))
        node = base["where"]
        for k in p:
            node = node[k]
        tps = node[1]
        perms = list(itertools.permutations(range(len(tps))))[1:]
        for perm in perms[:limit]:
            q2 = json.loads(json.dumps(q))
            n2 = q2["where"]
            for k in p:
                n2 = n2[k]
            n2[1] = [tps[i] for i in perm]
            out.append(q2)
    return out


# ------------------------------------------------------------------------------------------------
# rendering cases as Coq terms (coq/Sparql/Syntax.v)
# ------------------------------------------------------------------------------------------------
VNUM = {"a": 0, "b": 1, "c": 2, "d": 3, "e": 4, "f": 5, "g": 6}


def vnum(v):
    if v in VNUM:
        return VNUM[v]
    if v[0] == "x" and v[1:].isdigit():
        return 10 + int(v[1:])
    if v[0] == "y" and v[1:].isdigit():
        return 20 + int(v[1:])
    raise ValueError("variable outside the generator's vocabulary: %r" % v)


def vname(n):
    for k, v in VNUM.items():
        if v == n:
            return k
    if 10 <= n < 20:
        return "x%d" % (n - 10)
    if 20 <= n < 30:
        return "y%d" % (n - 20)
    raise ValueError(n)


def cs(s):
    return '"%s"' % s.replace('"', '""')


def cv(v):
    return "%d%%N" % vnum(v)


def clist(items):
    return "[" + "; ".join(items) + "]"


def ctm(t):
    return "(TV %s)" % cv(t[1]) if t[0] == "v" else "(TC %s)" % cs(t[1])


OPS = {"=": "OEq", "!=": "ONe", "<": "OLt", "<=": "OLe", ">": "OGt", ">=": "OGe"}


def cexpr(e):
    if e[0] == "cmp":
        return "(ECmp %s %s %s)" % (OPS[e[1]], cv(e[2][1]), ctm(e[3]))
    if e[0] == "not":
        return "(ENot %s)" % cexpr(e[1])
    return "(%s %s %s)" % ({"and": "EAnd", "or": "EOr"}[e[0]], cexpr(e[1]), cexpr(e[2]))


def cpat(e):
    t = e[0]
    if t == "bgp":
        return "(PBgp %s)" % clist("(%s, %s, %s)" % (ctm(s), ctm(p), ctm(o)) for s, p, o in e[1])
    if t == "group":
        return "(PGroup %s)" % clist(cpat(x) for x in e[1])
    if t == "union":
        return "(PUnion %s)" % clist(cpat(x) for x in e[1])
    if t == "graph":
        return "(PGraph %s %s)" % (ctm(e[1]), cpat(e[2]))
    if t == "filter":
        return "(PFilter %s)" % cexpr(e[1])
    if t == "bind":
        return "(PBind %s %s)" % (clist("(BV %s)" % cv(a[1]) if a[0] == "v" else "(BC %s)" % cs(a[1]) for a in e[2]), cv(e[3]))
    if t == "values":
        rows = clist(clist("None" if x is None else "(Some %s)" % cs(x[1]) for x in r) for r in e[2])
        return "(PValues %s %s)" % (clist(cv(v) for v in e[1]), rows)
    if t == "sub":
        return "(PSub %s)" % csel(e[1])
    raise ValueError(t)


AGG = {"SUM": "ASum", "MIN": "AMin", "MAX": "AMax", "AVG": "AAvg"}


def csel(q):
    if q["proj"] == "*":
        proj = "None"
    else:
        proj = "(Some %s)" % clist("(PVar %s)" % cv(v) if k == "VAR" else "(PAgg %s %s %s)" % (AGG[k], cv(v), cv(a)) for k, v, a in q["proj"])
    ob = clist("(%s, %s)" % (cv(v), "true" if d else "false") for v, d in q["order_by"])
    lim = "None" if q["limit"] is None else "(Some %d%%N)" % q["limit"]
    return "(Sel %s %s %s %s %s %s)" % ("true" if q["distinct"] else "false", proj, cpat(q["where"]),
                                         clist(cv(v) for v in q["group_by"]), ob, lim)


def cquery(q):
    return "{| q_from := %s; q_from_named := %s; q_sel := %s |}" % (
        clist(cs(g) for g in q.get("from", [])), clist(cs(g) for g in q.get("from_named", [])), csel(q))


def ctriples(ts):
    return clist("(%s, %s, %s)" % (cs(s), cs(p), cs(o)) for s, p, o in ts)


def cdataset(ds):
    return "{| d_default := %s; d_named := %s |}" % (
        ctriples(ds["default"]), clist("(%s, %s)" % (cs(g), ctriples(ts)) for g, ts in ds["named"]))


def from_coq_answer(val):
    """(cols, rows) printed by Coq -> {"cols": [names], "full": [[str]]}  (unbound -> "")"""
    cols, rows = val

    def cell(x):
        if x is None:
            return ""
        if isinstance(x, tuple) and x[0] == "Some":
            return x[1]
        raise ValueError(x)
    return {"cols": [vname(c) for c in cols], "full": [[cell(x) for x in r] for r in rows]}


# ------------------------------------------------------------------------------------------------
# the implementation's logical / physical plans (driver JSON) as Coq terms (coq/Sparql/Engine.v)
# ------------------------------------------------------------------------------------------------
class Unsupported(Exception):
    pass


def jv(name):
    try:
        return cv(name.lstrip("?$"))
    except ValueError as ex:
        raise Unsupported(str(ex))


def jtm(t):
    if t[0] == "v":
        return "(TV %s)" % jv(t[1])
    if t[0] == "c":
        return "(TC %s)" % cs(t[1])
    raise Unsupported("quoted triple pattern")


def jg(g):
    if g[0] == "d":
        return "GDefault"
    if g[0] == "n":
        return "(GNamed %s)" % cs(g[1])
    return "(GVar %s)" % jv(g[1])


def jqp(s, p, o, g):
    return "(%s, %s, %s, %s)" % (jtm(s), jtm(p), jtm(o), jg(g))


def jcond(c):
    if c[0] == "cmp":
        if not c[1].startswith(("?", "$")):
            raise Unsupported("comparison whose left operand is not a variable")
        r = c[3]
        rt = "(TV %s)" % jv(r) if r.startswith(("?", "$")) else "(TC %s)" % cs(r)
        return "(ECmp %s %s %s)" % (OPS[c[2]], jv(c[1]), rt)
    if c[0] in ("and", "or"):
        return "(%s %s %s)" % ({"and": "EAnd", "or": "EOr"}[c[0]], jcond(c[1]), jcond(c[2]))
    if c[0] == "not":
        return "(ENot %s)" % jcond(c[1])
    raise Unsupported("condition %s" % c[0])


def jspec(s):
    if s["proj"] is None:
        proj = "None"
    else:
        items = []
        for kind, v, alias in s["proj"]:
            if kind == "VAR":
                items.append("(PVar %s)" % jv(v))
            elif kind.upper() in AGG:
                items.append("(PAgg %s %s %s)" % (AGG[kind.upper()], jv(v), jv(alias if alias else v)))
            else:
                raise Unsupported("projection kind %s" % kind)
        proj = "(Some %s)" % clist(items)
    return "{| ss_proj := %s; ss_distinct := %s; ss_group := %s; ss_order := %s; ss_limit := %s |}" % (
        proj, "true" if s["distinct"] else "false", clist(jv(v) for v in s["group"]),
        clist("(%s, %s)" % (jv(v), "true" if d else "false") for v, d in s["order"]),
        "None" if s["limit"] is None else "(Some %d%%N)" % s["limit"])


def jargs(fn, args):
    if fn != "CONCAT":
        raise Unsupported("BIND function %s" % fn)
    return clist("(BV %s)" % jv(a) if a.startswith(("?", "$")) else "(BC %s)" % cs(a) for a in args)


def jrows(rows):
    return clist(clist("None" if x is None else "(Some %s)" % cs(x) for x in r) for r in rows)


def jlop(l):
    t = l[0]
    if t == "unit":
        return "LUnit"
    if t == "scan":
        return "(LScan %s)" % jqp(*l[1:5])
    if t == "union":
        return "(LUnion %s)" % clist(jlop(b) for b in l[1])
    if t == "graph":
        return "(LGraph %s %s)" % (jlop(l[2]), jg(l[1]))
    if t == "sel":
        return "(LSelection %s %s)" % (jlop(l[1]), jcond(l[2]))
    if t == "join":
        return "(LJoin %s %s)" % (jlop(l[1]), jlop(l[2]))
    if t == "sub":
        return "(LSubquery %s %s)" % (jlop(l[1]), jspec(l[2]))
    if t == "bind":
        return "(LBind %s %s %s)" % (jlop(l[1]), jargs(l[2], l[3]), jv(l[4]))
    if t == "values":
        return "(LValues %s %s)" % (clist(jv(v) for v in l[1]), jrows(l[2]))
    raise Unsupported("logical operator %s" % t)


def jpop(p):
    t = p[0]
    if t == "unit":
        return "XUnit"
    if t == "tscan":
        return "(XTableScan %s)" % jqp(*p[1:5])
    if t == "iscan":
        return "(XIndexScan %s)" % jqp(*p[1:5])
    if t == "union":
        return "(XUnion %s)" % clist(jpop(b) for b in p[1])
    if t == "graph":
        return "(XGraph %s %s)" % (jpop(p[2]), jg(p[1]))
    if t == "filter":
        return "(XFilter %s %s)" % (jpop(p[1]), jcond(p[2]))
    if t in ("bj", "hj", "nl"):
        return "(%s %s %s)" % ({"bj": "XBindJoin", "hj": "XHashJoin", "nl": "XNLJoin"}[t], jpop(p[1]), jpop(p[2]))
    if t == "star":
        return "(XStar %s %s)" % (jv(p[1]), clist("(%s, %s, %s)" % (jtm(s), jtm(pp), jtm(o)) for s, pp, o in p[2]))
    if t == "sub":
        return "(XSubquery %s %s)" % (jpop(p[1]), jspec(p[2]))
    if t == "bind":
        return "(XBind %s %s %s)" % (jpop(p[1]), jargs(p[2], p[3]), jv(p[4]))
    if t == "values":
        return "(XValues %s %s)" % (clist(jv(v) for v in p[1]), jrows(p[2]))
    raise Unsupported("physical operator %s" % t)


def from_coq_mus(val):
    """list of association lists printed by Coq -> sorted list of rows [[name, value], ...]"""
    return sorted([[vname(k), v] for k, v in row] for row in val)


def canon_impl_mus(rows):
    return sorted([[k, v] for k, v in row] for row in rows)


def mus_equal(a, b):
    """multiset equality of two canonical row lists (exact: AVG never occurs below the top level)"""
    return len(a) == len(b) and sorted(sorted(r) for r in a) == sorted(sorted(r) for r in b)


# ------------------------------------------------------------------------------------------------
# dedicated families (used by checks/c01.py and checks/c02.py, quick and thorough)
# ------------------------------------------------------------------------------------------------
def gen_scanfree_graphs(rng):
    """Several GRAPH operators with DIFFERENT graph terms (existing iri / missing iri / empty named graph / variables) whose
    bodies contain no triple pattern and are mostly textually identical ({} / VALUES only / BIND only), combined in joins
    and UNIONs: graph-existence patterns, where nothing but the GRAPH operator itself carries the graph term."""
    ds = gen_dataset(rng)
    while len(ds["named"]) < 2:
        ds = gen_dataset(rng)
    if rng.random() < 0.6:
        ds["named"][rng.randrange(len(ds["named"]))][1] = []            # an empty, catalogued graph
    names = [g for g, _ in ds["named"]]
    terms = [C(g) for g in names] + [C(E + "gx"), V("g"), V("e")]
    rng.shuffle(terms)

    def body(kind):
        if kind == 0:
            return ["group", []]
        if kind == 1:
            return ["group", [["values", ["a"], [[C("1")], [C("zz")]]]]]
        if kind == 2:
            return ["group", [["values", ["a", "b"], [[C(SUBJ[0]), None], [None, C("2")]]]]]
        return ["group", [["bind", "CONCAT", [["c", "x", "s"]], "f"]]]

    n = rng.choice([2, 2, 3])
    kind = rng.choice([0, 0, 1, 2, 3])
    graphs = []
    for i in range(n):
        k = kind if rng.random() < 0.8 else rng.choice([0, 1, 2])
        if k == 3 and i > 0:
            k = 0                                                        # one BIND only: a second one would rebind ?f
        graphs.append(["graph", terms[i], body(k)])
    r = rng.random()
    if r < 0.45:
        elems = list(graphs)                                             # joined
    elif r < 0.8:
        elems = [["union", [["group", [g]] for g in graphs]]]
    else:
        elems = [graphs[0], ["union", [["group", [g]] for g in graphs[1:]] + [["group", [["values", ["c"], [[C("5")]]]]]]]]
    if rng.random() < 0.35:
        t = rng.choice(ds["default"]) if ds["default"] else [SUBJ[0], PRED[0], SUBJ[1]]
        elems.insert(rng.randrange(len(elems) + 1), ["bgp", [[V("d"), C(t[1]), V("c") if r < 0.8 else V("b")]]])
    q = {"distinct": False, "proj": "*", "from": [], "from_named": [], "where": ["group", elems], "group_by": [], "order_by": [], "limit": None}
    if rng.random() < 0.2:
        q["from_named"] = rng.sample(names, rng.choice([1, min(2, len(names))]))
    return ds, q


PRIMES = {2: [131, 137, 149, 191, 263, 521], 4: [257, 263, 277, 311, 523], 16: [1031, 1033, 1049, 1061, 1091, 1097]}


def gen_prime_wide(rng, threads):
    """A join whose LEFT input has a prime number of rows, at least 64 per worker of a `threads`-sized pool (so that the
    parallel bind join splits it and the row count is no multiple of 2, 4 or 16), every left row having join partners."""
    n = rng.choice(PRIMES[threads])
    W = lambda i: E + "w%d" % i
    default = [[W(i), PRED[0], SUBJ[i % 5]] for i in range(n)]
    default += [[W(i), PRED[2], str(1 + (i * 7) % 13)] for i in range(n)]
    default += [[W(i), PRED[1], SUBJ[(i + 1) % 5]] for i in range(0, n, 3)]
    ds = {"default": default, "named": [[GRAPHS[0], [[W(0), PRED[0], SUBJ[0]]]]]}
    left = [V("a"), C(PRED[0]), V("b")]
    shape = rng.choice(["bgp", "group-filter", "values-right", "union-left", "three"])
    if shape == "bgp":
        elems = [["bgp", [left, [V("a"), C(PRED[2]), V("c")]]]]
    elif shape == "group-filter":
        elems = [["bgp", [left]], ["group", [["bgp", [[V("a"), C(PRED[2]), V("c")]]], ["filter", ["cmp", "!=", V("c"), C("1")]]]]]
    elif shape == "values-right":
        elems = [["bgp", [left]], ["values", ["b"], [[C(s)] for s in SUBJ[:4]] + [[None]]]]
    elif shape == "union-left":
        elems = [["bgp", [left]], ["union", [["group", [["bgp", [[V("a"), C(PRED[2]), V("c")]]]]], ["group", [["bgp", [[V("a"), C(PRED[1]), V("d")]]]]]]]]
    else:
        elems = [["bgp", [left, [V("a"), C(PRED[2]), V("c")]]], ["group", [["bgp", [[V("a"), V("e"), V("b")]]], ["values", ["e"], [[C(PRED[0])], [None]]]]]]
    q = {"distinct": False, "proj": "*", "from": [], "from_named": [], "where": ["group", elems], "group_by": [], "order_by": [], "limit": None}
    return ds, q, n


def gen_bind_sibling(rng):
    """The shapes of the repaired findings C01-bind-target-sibling / C01-bind-arg-unbound (fix 1fdcd07): a pattern binds ?b,
    a group joined after it BINDs ?b (or ?f) from constants / from variables its own group binds certainly or only sometimes;
    the BIND value equals the sibling's ?b for some rows and differs for others, so the join on ?b keeps some and drops some."""
    ds = gen_dataset(rng)
    p1, p2 = rng.choice(PRED), rng.choice(PRED)
    val = rng.choice(STRS)                           # CONCAT arguments are plain string literals
    for subj in rng.sample(SUBJ, 2):                 # some ?b equal the BIND value, the others differ
        if [subj, p1, val] not in ds["default"]:
            ds["default"].append([subj, p1, val])
    if rng.random() < 0.5 and [SUBJ[0], p2, val] not in ds["default"]:
        ds["default"].append([SUBJ[0], p2, val])
    ds["default"].sort()
    inner = []
    kind = rng.choice([0, 1, 2, 3])
    if kind == 0:                                    # constant BIND alone in its group
        inner = [["bind", "CONCAT", [C(val)], "b"]]
    elif kind == 1:                                  # a pattern, then a constant BIND of the sibling's variable
        inner = [["bgp", [[V("a"), C(p2), V("c")]]], ["bind", "CONCAT", [C(val)], "b"]]
    elif kind == 2:                                  # BIND from a certainly bound variable of its own group
        inner = [["bgp", [[V("a"), C(p2), V("c")]]], ["bind", "CONCAT", [V("c")], "b"]]
    else:                                            # an argument that is unbound in some rows: the target stays unbound there
        inner = [["values", ["c", "d"], [[C(val), None], [None, C("x")], [C("zz"), C("x")]]], ["bind", "CONCAT", [V("c"), V("d")], "b"]]
    elems = [["bgp", [[V("a"), C(p1), V("b")]]], ["group", inner]]
    if rng.random() < 0.3:
        elems.append(["filter", ["cmp", "!=", V("a"), C(rng.choice(SUBJ))]])
    if rng.random() < 0.25:
        elems = [["union", [["group", elems], ["group", [["values", ["b"], [[C(val)]]], ["group", inner]]]]]]
    q = {"distinct": False, "proj": "*", "from": [], "from_named": [], "where": ["group", elems], "group_by": [], "order_by": [], "limit": None}
    return ds, q




def gen_distinct_order(rng):
    """SELECT DISTINCT with ORDER BY over a STRICT SUBSET of the projected variables, duplicates of the projected row arising
    through a projected-away variable of fan-out >= 2 and interleaved with other rows that tie on the key (seeded change
    C02r2/3: a sub-select's DISTINCT done by removing ADJACENT equal rows after the sort).  Shapes: chain ?a p ?d . ?d q ?c
    projected on (?a, ?c); a UNION of two branches yielding the same rows; as a sub-select (alone, joined with a pattern, under
    UNION) or as the top-level select."""
    ds = gen_dataset(rng)
    p1, p2 = rng.sample(PRED, 2)
    roots = rng.sample(SUBJ, rng.choice([1, 2]))
    vals = rng.sample(STRS + INTS[:2], rng.choice([2, 2, 3]))
    trip = set(tuple(t) for t in ds["default"])
    for r in roots:
        kids = rng.sample([x for x in SUBJ if x != r], rng.choice([2, 2, 3]))
        for k in kids:
            trip.add((r, p1, k))
            for v in vals:
                if rng.random() < 0.9:
                    trip.add((k, p2, v))            # the same values under several children: equal projected rows, not adjacent
            trip.add((r, p2, vals[0]))              # for the UNION shape: the root carries a value itself
    ds["default"] = sorted(list(t) for t in trip)
    shape = rng.choice([0, 0, 1])
    if shape == 0:
        pats = [[V("a"), C(p1), V("d")], [V("d"), C(p2), V("c")]]
        rng.shuffle(pats)
        body = ["group", [["bgp", pats]]]
    else:
        body = ["group", [["union", [["group", [["bgp", [[V("a"), C(p1), V("d")], [V("d"), C(p2), V("c")]]]]],
                                     ["group", [["bgp", [[V("a"), C(p2), V("c")]]]]]]]]]
    order = [["a", rng.random() < 0.4]]
    inner = {"distinct": True, "proj": [["VAR", "a", None], ["VAR", "c", None]], "from": [], "from_named": [], "where": body,
             "group_by": [], "order_by": order, "limit": None}
    r = rng.random()
    if r < 0.3:
        q = dict(inner)                               # the top-level select itself (execute_query.rs: finalize_select)
        if rng.random() < 0.3:
            q["limit"] = None
        return ds, q
    if r < 0.6:
        elems = [["sub", inner]]
    elif r < 0.85:
        side = [["bgp", [[V("a"), C(rng.choice(PRED)), V("b")]]], ["sub", inner]]
        rng.shuffle(side)
        elems = side
    else:
        elems = [["union", [["group", [["sub", inner]]], ["group", [["values", ["a", "c"], [[C(roots[0]), C(vals[0])]]]]]]]]
    q = {"distinct": False, "proj": "*", "from": [], "from_named": [], "where": ["group", elems], "group_by": [], "order_by": [], "limit": None}
    return ds, q

