"""C19 - inconsistency-tolerant answers are those true in every maximal repair (DESIGN.md section 7, C19).

Theorems: coq/Repairs/C19.v (the search of `compute_repairs` with its final maximality filter returns exactly the
subset-maximal consistent subsets, for every hash iteration order; `query_with_repairs` returns exactly the
bindings that hold in every repair; conflict-free facts are answered; repair-aware materialisation ends consistent).

Correspondence, on every case and in several SEPARATE PROCESSES (std's hash seeds differ per process; inside a
process every repetition builds fresh hash sets, which again have their own keys):
  - function level (hooks `verif_violates_constraints`, `verif_compute_repairs`) and end to end
    (`query_with_repairs`, `infer_new_facts_semi_naive_with_repairs`) against the Gallina model
    (`KV.Repairs.Run.run_case`), and
  - against the Spec: a brute-force oracle written here from the textbook definitions (a set violates iff the
    image of some match of a constraint body lies inside it; repairs = consistent subsets without a consistent
    proper superset; answers = bindings holding in every repair), cross-checked against the executable Coq Spec
    (`max_repairs_local`, `iar_of`) evaluated in the same run.
Any variation of a canonicalised repair set or answer set between repetitions is a violation of "the result does
not vary from run to run".  The materialisation result legitimately depends on iteration order (which of several
largest repairs is taken, which of two mutually conflicting consequences is derived first); the property only
demands a consistent final store, which is what the Spec checks; the correspondence validates every observed
outcome against the order-independent relation that all outcomes of the model satisfy (`validate_mat`).
"""
import glob
import itertools
import json
import os
import vf

SUB = "Repairs"
REQ = ["KV.Repairs.Model", "KV.Repairs.Spec", "KV.Repairs.Run"]
PRE = "Open Scope N_scope."
MODEL_FUEL = 400
MODEL_BUDGET = 4000000

PROP_RULE = ("a case is (fact set, constraint set, goal patterns, rules); the implementation is run on it in several "
             "separate processes and several times per process, and every canonicalised outcome is compared with the "
             "Gallina model and with the brute-force Spec. Exhaustive scope: every subset of the stated fact universe x "
             "the stated constraint sets, each with the goal battery and a rule set. Random scope: <= 10 facts over 4 "
             "subjects/objects and 3 predicates, 1-3 constraints of 0-3 atoms (mostly 1-2), constants, repeated "
             "variables, an occasional quoted-triple term, goals with 0-3 variables, 0-2 range-restricted rules. A case is "
             "non-trivial when the fact set violates the constraints (the search expands at least one set) and at "
             "least one fact is outside every repair or there are >= 2 repairs; distinct by (facts, constraints).")


# ---- rendering for Coq ---------------------------------------------------------------------------
def c_term(t):
    if t[0] == "v":
        return "Var %d" % t[1]
    if t[0] == "c":
        return "Const %d" % t[1]
    return "Quoted"


def c_atom(a):
    return "(%s, %s, %s)" % tuple(c_term(t) for t in a)


def c_atoms(l):
    return "[" + "; ".join(c_atom(a) for a in l) + "]"


def c_fact(f):
    return "(%d, %d, %d)" % tuple(f)


def c_case(case):
    return "run_case %d [%s] [%s] [%s] %s" % (
        MODEL_FUEL,
        "; ".join(c_atoms(c) for c in case["cs"]),
        "; ".join("(%s, %s)" % (c_atoms(r["prem"]), c_atoms(r["concl"])) for r in (case.get("rules") or [])),
        "; ".join(c_fact(f) for f in case["facts"]),
        c_atoms(case.get("goals") or []))


# ---- the Spec oracle (textbook definitions, independent of the join algorithm) --------------------
def match_atom(atom, fact, sub):
    """Extend substitution `sub` so that atom instantiated by it is `fact`; None if impossible."""
    s = sub
    for t, x in zip(atom, fact):
        if t[0] == "c":
            if t[1] != x:
                return None
        elif t[0] == "v":
            y = s.get(t[1])
            if y is None:
                if s is sub:
                    s = dict(sub)
                s[t[1]] = x
            elif y != x:
                return None
        else:
            return None            # a quoted-triple pattern matches no plain id
    return s


def body_matches(body, facts):
    """All (substitution, indices of the facts used) such that every atom of the body is sent to a fact."""
    out = []

    def go(i, sub, used):
        if i == len(body):
            out.append((sub, frozenset(used)))
            return
        for k, f in enumerate(facts):
            s = match_atom(body[i], f, sub)
            if s is not None:
                go(i + 1, s, used + [k])
    if body:
        go(0, {}, [])
    return out


def conflict_masks(cs, facts):
    """Images (as bit masks over `facts`) of all matches of non-empty constraint bodies; an empty body has no
    atom to match and never fires (join_rule loops over the premises) - see notes/C19.md."""
    masks = set()
    for body in cs:
        for _, used in body_matches(body, facts):
            m = 0
            for k in used:
                m |= 1 << k
            masks.add(m)
    # keep the minimal ones
    ms = sorted(masks, key=lambda m: bin(m).count("1"))
    keep = []
    for m in ms:
        if not any((k & m) == k for k in keep):
            keep.append(m)
    return keep


def spec_violates(cs, facts):
    return any(body_matches(body, facts) for body in cs)


def spec_repairs(cs, facts):
    """Subset-maximal consistent subsets of `facts` (list of sorted fact lists, sorted)."""
    n = len(facts)
    conf = conflict_masks(cs, facts)
    cons = [m for m in range(1 << n) if not any((c & m) == c for c in conf)]
    cons_set = cons
    maxi = [m for m in cons if not any((c & m) == m and c != m for c in cons_set)]
    return sorted(sorted(facts[k] for k in range(n) if m >> k & 1) for m in maxi), len(cons)


def goal_bindings(goal, facts):
    out = []
    for f in facts:
        s = match_atom(goal, f, {})
        if s is not None:
            out.append(sorted([k, v] for k, v in s.items()))
    return out


def spec_answers(goal, repairs):
    """Bindings of the goal's variables that hold in every repair (sorted list of bindings, no repetition)."""
    sets = [set(map(lambda b: json.dumps(b), goal_bindings(goal, r))) for r in repairs]
    if not sets:
        return []
    common = set.intersection(*sets)
    return sorted(json.loads(b) for b in common)


def inst(atom, sub):
    return [t[1] if t[0] == "c" else sub.get(t[1], 0) if t[0] == "v" else 0 for t in atom]


def validate_mat(case, ds, inferred, repairs):
    """Order-independent facts about every outcome of the repair-aware semi-naive loop.  Returns (inconsistent, problems)."""
    cs, rules, facts = case["cs"], case.get("rules") or [], case["facts"]
    problems = []
    dsl = [list(f) for f in ds]
    inconsistent = spec_violates(cs, dsl)
    inf = [list(f) for f in inferred]
    if len({tuple(f) for f in inf}) != len(inf):
        problems.append("inferred_so_far repeats a fact")
    if len({tuple(f) for f in dsl}) != len(dsl):
        problems.append("the store lists a fact twice")
    if any(f not in dsl for f in inf):
        problems.append("an inferred fact is not in the store")
    base = sorted(f for f in dsl if f not in inf)
    if not spec_violates(cs, facts):
        if base != sorted(facts):
            problems.append("consistent input: store minus inferred differs from the input facts")
    else:
        best = max(len(r) for r in repairs)
        if base not in repairs:
            problems.append("store minus inferred is not a maximal repair of the input")
        elif len(base) != best:
            problems.append("the repair taken is not one of maximum cardinality")
    cur = [list(f) for f in base]
    for f in inf:
        ok = False
        for r in rules:
            for sub, _ in body_matches(r["prem"], cur):
                if any(inst(c, sub) == f for c in r["concl"]):
                    ok = True
                    break
            if ok:
                break
        if not ok:
            problems.append("inferred fact %s is not a consequence of the facts before it" % (f,))
        if f in cur:
            problems.append("inferred fact %s was already present" % (f,))
        cur.append(f)
        if spec_violates(cs, cur):
            problems.append("adding inferred fact %s violated the constraints" % (f,))
            break
    # closure: a consequence of the final store is in it or would violate
    for r in rules:
        for sub, _ in body_matches(r["prem"], dsl):
            for c in r["concl"]:
                g = inst(c, sub)
                if g not in dsl and not spec_violates(cs, dsl + [g]):
                    problems.append("consequence %s of the final store is neither present nor in conflict" % (g,))
    return inconsistent, problems[:4]


# ---- canonical forms of what Coq prints -----------------------------------------------------------
def canon_sets(v):
    return sorted(sorted(list(f) for f in s) for s in v)


def canon_bindings(v):
    return sorted(sorted([k, x] for k, x in b) for b in v)


def is_err(mo):
    return isinstance(mo, tuple) and len(mo) > 0 and mo[0] == "ERROR"


# ---- generators -----------------------------------------------------------------------------------
V = lambda n: ["v", n]
C = lambda n: ["c", n]

GOAL_BATTERY = [
    [V(0), V(1), V(2)],          # everything
    [V(0), C(12), V(1)],         # the unrelated predicate
    [V(0), C(10), V(1)],
    [C(1), V(0), V(1)],
    [V(0), V(1), V(0)],          # repeated variable
    [C(3), C(12), C(4)],         # ground goal
    [V(0), C(11), C(5)],
]

UNIVERSE6 = [[1, 10, 5], [1, 11, 5], [2, 10, 5], [2, 11, 5], [3, 12, 4], [1, 12, 1]]
UNIVERSE8 = UNIVERSE6 + [[2, 12, 1], [4, 10, 4]]

CONSTRAINT_SETS = [
    # alive/dead style: two atoms sharing both variables
    [[[V(0), C(10), V(1)], [V(0), C(11), V(1)]]],
    # a one-atom denial plus a two-atom constraint through a join variable in different positions
    [[[V(0), C(12), V(0)]], [[V(0), C(10), V(1)], [V(2), C(12), V(0)]]],
    # constants, and a three-atom body; two constraints overlapping on facts
    [[[C(1), C(10), V(0)], [C(2), C(11), V(0)]], [[V(0), C(10), V(1)], [V(0), C(11), V(1)], [V(2), C(12), V(3)]]],
    # thorough only: variable predicate, symmetric body
    [[[V(0), V(1), V(2)], [V(2), V(1), V(0)]]],
    [[[V(0), C(10), C(5)], [V(0), C(11), C(5)]], [[C(3), C(12), V(0)]]],
]

RULE_SETS = [
    [{"prem": [[V(0), C(12), V(1)]], "concl": [[V(0), C(10), V(1)]]},
     {"prem": [[V(0), C(12), V(1)]], "concl": [[V(0), C(11), V(1)]]}],
    [{"prem": [[V(0), C(10), V(1)], [V(2), C(12), V(3)]], "concl": [[V(2), C(11), V(1)]]}],
    [{"prem": [[V(0), C(10), V(1)]], "concl": [[V(1), C(12), V(0)], [V(0), C(12), V(0)]]}],
]


def rand_term(rng, consts, nvars, pvar=0.5):
    r = rng.random()
    if r < 0.01:
        return ["q"]
    if r < pvar:
        return V(rng.randrange(nvars))
    return C(rng.choice(consts))


def rand_atom(rng, nvars, pvar=0.55):
    return [rand_term(rng, [1, 2, 3, 4], nvars, pvar), rand_term(rng, [10, 11, 12], nvars, 0.12),
            rand_term(rng, [1, 2, 3, 4], nvars, pvar)]


def random_case(rng, maxfacts):
    n = rng.choice([0, 1, 2, 3, 3, 4, 4, 5, 5, 6, 6, 7, 7, 8, 8, 9, 10])
    n = min(n, maxfacts)
    facts = []
    while len(facts) < n:
        f = [rng.randrange(1, 5), rng.choice([10, 11, 12]), rng.randrange(1, 5)]
        if f not in facts:
            facts.append(f)
    cs = []
    for _ in range(rng.choice([1, 1, 2, 2, 3])):
        k = rng.choice([0, 1, 1, 2, 2, 2, 2, 2, 2, 3])
        if facts and k > 0 and rng.random() < 0.7:
            # generalise k facts of the case into a body that certainly matches: constants are kept or replaced by a
            # variable, equal constants mostly by the same variable (a join)
            chosen = [rng.choice(facts) for _ in range(k)]
            var_of, body = {}, []
            for f in chosen:
                atom = []
                for pos, x in enumerate(f):
                    if rng.random() < (0.25 if pos == 1 else 0.6):
                        if x in var_of and rng.random() < 0.8:
                            atom.append(V(var_of[x]))
                        else:
                            v = len(var_of) if len(var_of) < 4 else rng.randrange(4)
                            var_of.setdefault(x, v)
                            atom.append(V(v))
                    else:
                        atom.append(C(x))
                body.append(atom)
            cs.append(body)
        else:
            cs.append([rand_atom(rng, 3) for _ in range(k)])
    goals = []
    for _ in range(3):
        nv = rng.randrange(4)
        g = [C(rng.randrange(1, 5)), C(rng.choice([10, 11, 12])), C(rng.randrange(1, 5))]
        if facts and rng.random() < 0.7:
            f = rng.choice(facts)
            g = [C(f[0]), C(f[1]), C(f[2])]
        pos = rng.sample([0, 1, 2], nv)
        for p in pos:
            g[p] = V(rng.randrange(2) if rng.random() < 0.3 else p)
        if rng.random() < 0.02:
            g[rng.randrange(3)] = ["q"]
        goals.append(g)
    rules = []
    for _ in range(rng.choice([0, 1, 1, 2])):
        prem = [rand_atom(rng, 3, 0.7) for _ in range(rng.choice([1, 1, 2]))]
        pv = sorted({t[1] for a in prem for t in a if t[0] == "v"})
        concl = []
        for _ in range(rng.choice([1, 1, 1, 2])):
            c = []
            for pos in range(3):
                if pos == 1:
                    c.append(C(rng.choice([10, 11, 12])))
                elif pv and rng.random() < 0.75:
                    c.append(V(rng.choice(pv)))
                else:
                    c.append(C(rng.randrange(1, 5)))
            concl.append(c)
        rules.append({"prem": prem, "concl": concl})
    subsets = [sorted(rng.sample(range(n), rng.randrange(n + 1))) for _ in range(4)] if n else []
    return {"facts": facts, "cs": cs, "goals": goals, "rules": rules, "subsets": subsets}


def load_corpus():
    out = []
    for fn in sorted(glob.glob(os.path.join(vf.VERIF, "corpus", "C19", "*.json"))):
        with open(fn) as f:
            c = json.load(f)
        c = c.get("case", c)
        c["_file"] = os.path.basename(fn)
        out.append(c)
    return out


# ---- the check ------------------------------------------------------------------------------------
def distinct(runs, key):
    """Distinct canonical outcomes of `key` over all process repetitions: list of (value, count)."""
    out = []
    for r in runs:
        for v, n in r[key]:
            for e in out:
                if e[0] == v:
                    e[1] += n
                    break
            else:
                out.append([v, n])
    return out


def evaluate(ctx, binpath, cases, stream, procs, reps):
    for c in cases:
        c["reps"] = reps
    wire = [{k: v for k, v in c.items() if not k.startswith("_")} for c in cases]
    runs = [ctx.run_impl(binpath, wire) for _ in range(procs)]
    ctx.log("%s: implementation ran %d cases x %d processes x %d repetitions" % (stream, len(cases), procs, reps))
    # The faithful model keeps `seen` as a list, so a search over n facts with V violating subsets costs about
    # (V*n)^2 comparisons under vm_compute; cases beyond the budget are checked against the Spec oracle only.
    specs = []
    for c in cases:
        s_reps, ncons = spec_repairs(c["cs"], c["facts"])
        specs.append((s_reps, ncons))
    budget = MODEL_BUDGET * (4 if ctx.thorough else 1)
    affordable = [i for i, c in enumerate(cases)
                  if (((1 << len(c["facts"])) - specs[i][1]) * len(c["facts"])) ** 2 <= budget]
    mres = ctx.run_model(SUB, REQ, [c_case(cases[i]) for i in affordable], preamble=PRE)
    model = [None] * len(cases)
    for i, r in zip(affordable, mres):
        model[i] = r
    ctx.log("%s: model evaluated on %d of %d cases" % (stream, len(affordable), len(cases)))
    st = dict(cases=len(cases), impl_runs=0, violating_inputs=0, spec_violations=0, run_to_run_variations=0,
              impl_model_mismatches=0, repairs_total=0, goals=0, goals_with_empty_answer=0, mat_outcomes=0,
              mat_cases_with_several_outcomes=0, facts_total=0, consistent_subsets_total=0, model_skipped_too_large=0)
    for i, c in enumerate(cases):
        ctx.count()
        pub = {k: v for k, v in c.items() if not k.startswith("_") and k != "reps"}
        per = [r[i] for r in runs]
        if any(p is None or "viol" not in p for p in per):
            bad = next(p for p in per if p is None or "viol" not in p)
            ctx.violation(pub, {"what": "the implementation panicked or died on an inconsistency-tolerant query", "impl": bad})
            st["spec_violations"] += 1
            continue
        total = sum(n for p in per for _, n in p["viol"])
        st["impl_runs"] += total
        facts, cs, goals = c["facts"], c["cs"], c.get("goals") or []
        st["facts_total"] += len(facts)
        # ---- Spec ----
        s_viol = spec_violates(cs, facts)
        s_reps, ncons = specs[i]
        st["consistent_subsets_total"] += ncons
        s_sub = [spec_violates(cs, [facts[k] for k in sub]) for sub in c.get("subsets") or []]
        s_ans = [spec_answers(g, s_reps) for g in goals]
        st["violating_inputs"] += 1 if s_viol else 0
        st["repairs_total"] += len(s_reps)
        st["goals"] += len(goals)
        st["goals_with_empty_answer"] += sum(1 for a in s_ans if not a)
        in_all = [f for f in facts if all(f in r for r in s_reps)]
        if s_viol and (len(s_reps) >= 2 or len(in_all) < len(facts)):
            ctx.nontrivial((facts, cs))
        # ---- implementation against the Spec (every repetition in every process) ----
        viol_found = False

        def violation(what, **kw):
            nonlocal viol_found
            if not viol_found:
                d = {"what": what, "runs": total, "processes": len(per)}
                d.update(kw)
                ctx.violation(pub, d)
                st["spec_violations"] += 1
            viol_found = True

        d_viol = distinct(per, "viol")
        d_sub = distinct(per, "sub_viol")
        d_reps = distinct(per, "repairs")
        if [v for v, _ in d_viol] != [s_viol]:
            violation("violates_constraints disagrees with 'some constraint body has a match in the fact set'",
                      implementation=d_viol, spec=s_viol)
        if [v for v, _ in d_sub] != [s_sub]:
            violation("violates_constraints disagrees with 'some constraint body has a match' on a subset of the facts",
                      subsets=c.get("subsets"), implementation=d_sub, spec=s_sub)
        if len(d_reps) > 1:
            st["run_to_run_variations"] += 1
            violation("compute_repairs returns different repair sets in different runs of the same input",
                      implementation_outcomes=d_reps, spec=s_reps)
        elif d_reps[0][0] != s_reps:
            violation("compute_repairs does not return exactly the subset-maximal consistent subsets",
                      implementation=d_reps[0][0], spec=s_reps)
        for gi, g in enumerate(goals):
            d_ans = distinct([{"a": p["answers"][gi]} for p in per], "a")
            as_sets = []
            for v, n in d_ans:
                sv = sorted(json.loads(x) for x in {json.dumps(b) for b in v})
                if sv not in as_sets:
                    as_sets.append(sv)
            if len(as_sets) > 1:
                st["run_to_run_variations"] += 1
                violation("query_with_repairs returns different answer sets in different runs of the same input",
                          goal=g, implementation_outcomes=d_ans, spec=s_ans[gi])
            elif as_sets[0] != s_ans[gi]:
                violation("query_with_repairs does not return exactly the bindings that hold in every maximal repair",
                          goal=g, implementation=as_sets[0], spec=s_ans[gi],
                          conflict_free_facts_missing=[f for f in in_all if any(b not in as_sets[0] for b in goal_bindings(g, [f]))][:3])
        d_mat = [e for e in distinct(per, "mat") if e[0] is not None]
        st["mat_outcomes"] += len(d_mat)
        st["mat_cases_with_several_outcomes"] += 1 if len(d_mat) > 1 else 0
        mat_problems = []
        for v, n in d_mat:
            inconsistent, problems = validate_mat(c, v["ds"], v["inferred"], s_reps)
            if inconsistent or v["viol"]:
                violation("repair-aware materialisation ended in a fact set that violates the constraints",
                          final_store=v["ds"], inferred=v["inferred"])
            elif problems:
                mat_problems.append({"outcome": v, "problems": problems})
        # ---- model against the Coq Spec and the oracle, implementation against the model ----
        mo = model[i]
        if mo is None:
            st["model_skipped_too_large"] += 1
            if mat_problems and not viol_found:
                ctx.broken("correspondence", stream, "materialisation outcome of the implementation outside the model's relation: %s" % (mat_problems[:2],), pub)
            continue
        if is_err(mo):
            ctx.broken("correspondence", stream, "model evaluation failed: %s" % (mo[1],), pub)
            continue
        m_viol, m_reps, cq_reps, m_queries, m_mat = mo   # Coq prints left-nested pairs flat
        problems = []
        if m_reps is None:
            problems.append("the model's search ran out of fuel (contradicts C19_terminates)")
        else:
            m_reps = canon_sets(m_reps[1])
            if m_reps != s_reps or canon_sets(cq_reps) != s_reps or m_viol != s_viol:
                problems.append("the model / the Coq Spec disagree with the Python oracle on the repairs: model %s, Coq Spec %s, oracle %s"
                                % (m_reps, canon_sets(cq_reps), s_reps))
            if len(d_reps) == 1 and d_reps[0][0] != m_reps:
                problems.append("compute_repairs: implementation %s, model %s" % (d_reps[0][0], m_reps))
        if [v for v, _ in d_viol] != [m_viol]:
            problems.append("violates_constraints: implementation %s, model %s" % (d_viol, m_viol))
        for gi, g in enumerate(goals):
            ma, sa = m_queries[gi]
            if ma is None:
                problems.append("the model's query ran out of fuel")
                continue
            ma, sa = canon_bindings(ma[1]), canon_bindings(sa)
            if ma != s_ans[gi] or sa != s_ans[gi]:
                problems.append("goal %s: model answers %s, Coq Spec %s, oracle %s" % (g, ma, sa, s_ans[gi]))
            for v, n in distinct([{"a": p["answers"][gi]} for p in per], "a"):
                if v != ma:        # multiplicities included: the model's answer list has no repetition
                    problems.append("query_with_repairs for goal %s: implementation %s, model %s" % (g, v, ma))
                    break
        if c.get("rules") is not None:
            if m_mat is None:
                problems.append("the model's materialisation ran out of fuel")
            else:
                m_ds, m_inf, m_still = m_mat[1]
                inconsistent, mp = validate_mat(c, [list(f) for f in m_ds], [list(f) for f in m_inf], s_reps)
                if inconsistent or m_still or mp:
                    problems.append("the model's materialisation outcome fails the validation: %s" % (mp,))
            if mat_problems:
                problems.append("materialisation outcome of the implementation outside the model's relation: %s" % (mat_problems[:2],))
        if problems and not viol_found:
            st["impl_model_mismatches"] += 1
            ctx.broken("correspondence", stream, "; ".join(problems[:3]), pub)
    ctx.stream(stream, **st)


def exhaustive_cases(universe, csets):
    out = []
    n = len(universe)
    for ci, cs in enumerate(csets):
        for m in range(1 << n):
            facts = [universe[k] for k in range(n) if m >> k & 1]
            # vary the listing order as well (it is not the hash order, but costs nothing)
            if m % 3 == 1:
                facts = facts[::-1]
            out.append({"facts": facts, "cs": cs, "goals": GOAL_BATTERY, "rules": RULE_SETS[(ci + m) % len(RULE_SETS)],
                        "subsets": []})
    return out


def run(ctx):
    ctx.coq(SUB, "C19.v")
    binpath = ctx.harness("c19")
    procs = 5
    reps = 8 if ctx.thorough else 4
    corpus = load_corpus()
    if corpus:
        evaluate(ctx, binpath, corpus, "corpus", procs, 16)
    for k in ctx.known_findings():
        w = k.get("witness")
        if isinstance(w, dict) and "facts" in w:
            before = len(ctx.violations)
            evaluate(ctx, binpath, [dict(w)], "known-witness", procs, 32)
            if len(ctx.violations) > before:
                det = ctx.violations[before][1]
                del ctx.violations[before:]
                ctx.known(k["id"], "%s (%s)" % (k.get("what", ""), det.get("what")))
            else:
                ctx.log("finding %s no longer reproduces on its witness (entry is stale)" % k["id"])
    universe = UNIVERSE8 if ctx.thorough else UNIVERSE6
    csets = CONSTRAINT_SETS if ctx.thorough else CONSTRAINT_SETS[:3]
    ex = exhaustive_cases(universe, csets)
    ctx.sample({k: v for k, v in ex[len(ex) // 3].items() if k != "goals"})
    evaluate(ctx, binpath, ex, "exhaustive", procs, reps)
    ctx.coverage["exhaustive"] = True
    ctx.coverage["exhaustive_scope"] = ("all %d subsets of a %d-fact universe x %d constraint sets, %d goals each, "
                                        "%d processes x %d repetitions" % (1 << len(universe), len(universe), len(csets),
                                                                           len(GOAL_BATTERY), procs, reps))
    n = 3000 if ctx.thorough else 300
    rnd = [random_case(ctx.rng, 10) for _ in range(n)]
    ctx.sample(rnd[0])
    evaluate(ctx, binpath, rnd, "random", procs, reps)
    ctx.finish(
        level="proof", rule=PROP_RULE,
        trusted_base=[
            "Coq 8.16.1 kernel; vm_compute for running the model and the executable Spec in the correspondence check",
            "hand-written Gallina model coq/Repairs/Model.v of matches_rule_pattern, join_rule, violates_constraints, "
            "compute_repairs, query_with_repairs, infer_new_facts_semi_naive_with_repairs",
            "correspondence check: harness/src/bin/c19.rs (public API + add-only hooks verif_compute_repairs / "
            "verif_violates_constraints), checks/c19.py generators, canonicalisation and brute-force oracle",
            "HashSet modelled as a duplicate-free list whose order is the iteration order (universally quantified); "
            "HashSet::clone / remove keep the relative order of the remaining elements (hashbrown); u32 ids as unbounded N",
        ],
        assumptions=["iteration order of a hash set is the only per-process nondeterminism of the anchored code",
                     "rule filters, negative premises and unbound conclusion variables are outside the modelled materialisation "
                     "(generated rules are positive, range-restricted and filter-free)"])


def replay(ctx):
    binpath = ctx.harness("c19")
    c = ctx.replay["case"]
    case = dict(c.get("case", c))
    evaluate(ctx, binpath, [case], "replay", 5, 64)
    ctx.finish(level="proof", rule=PROP_RULE)
