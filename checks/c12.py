"""C12 - incremental cross-window reasoning equals recomputation from scratch (DESIGN.md section 7, C12).

Theorems: coq/CrossWindow/C12.v (semiring fixpoint theorem at the expiry instance, C12_step, C12_history).
Correspondence: the real `incremental_sds_plus` (state carried across the steps of a history) and the real
`naive_sds_plus` against the Gallina model (`KV.CrossWindow.Run.run_case`) on the same histories;
oracles: (a) `spec_state` of Spec.v (plain iteration of the annotated consequence operator), evaluated by
Coq, and (b) an independent brute-force computation of E in this file (for every expiry threshold t the
Boolean least model of the alive facts with expiry >= t; E f = the largest t at which f is derivable).
"""
import json
import os
import vf

INF = 2 ** 64 - 1
FUEL = 400

PROP_RULE = ("a case is a history: a rule set over annotated predicates, 2-3 windows, one static graph, output IRIs and "
             "5-10 strictly increasing evaluation times with a window-consistent content at each; it is non-trivial when, "
             "at some step after the first, the carried state contributes entries (d_old non-empty), the step has new or "
             "renewed base facts (d_new non-empty) and the result holds at least one fact that is not a base fact; "
             "distinct by the rendered case. Evaluations count steps.")


# ---- encoding shared with Model.v (enc): little-endian base 512, digits 1..256 -------------------
def enc(s):
    n = 0
    for b in reversed(s.encode("utf-8")):
        n = n * 512 + b + 1
    return n


def cstr(s):
    return "[" + "; ".join("%d" % b for b in s.encode("utf-8")) + "]"


def cterm(t, varid):
    if "v" in t:
        return "V %d" % varid.setdefault(t["v"], len(varid))
    return "C (enc %s)" % cstr(t["c"])


def cpat(p, varid):
    return "(%s, %s, %s)" % tuple(cterm(t, varid) for t in p)


def crules(rules):
    out = []
    for r in rules:
        varid = {}
        out.append("mkRule [%s] [%s]" % ("; ".join(cpat(p, varid) for p in r["prem"]),
                                         "; ".join(cpat(p, varid) for p in r["concl"])))
    return "[" + "; ".join(out) + "]"


def csds(step):
    ws = []
    for w in step["windows"]:
        ts = "; ".join("(%s, %s, %s, %d)" % (cstr(t[0]), cstr(t[1]), cstr(t[2]), t[3]) for t in w["triples"])
        ws.append("(%s, %d, [%s])" % (cstr(w["iri"]), w["alpha"], ts))
    gs = []
    for g in step["statics"]:
        ts = "; ".join("(%s, %s, %s)" % (cstr(t[0]), cstr(t[1]), cstr(t[2])) for t in g["triples"])
        gs.append("(%s, [%s])" % (cstr(g["iri"]), ts))
    return "(mkSds [%s] [%s] [%s])" % ("; ".join(ws), "; ".join(gs), "; ".join(cstr(o) for o in step["outputs"]))


def cstate(init):
    return "[" + "; ".join("(enc %s, (enc %s, enc %s, enc %s), %d)" % (cstr(a[0]), cstr(a[1]), cstr(a[2]), cstr(a[3]), a[4]) for a in init) + "]"


def case_names(c):
    """Every string of the case (terms, component IRIs, annotated predicates): outputs are rendered as
    positions in this table."""
    names = set()
    for r in c["rules"]:
        for p in r["prem"] + r["concl"]:
            for t in p:
                if "c" in t:
                    names.add(t["c"])
    for a in c.get("init_state", []):
        names.update(a[:4])
    for s in c["steps"]:
        comps = components(s)
        names.update(comps)
        locs = set()
        for w in s["windows"]:
            for t in w["triples"]:
                names.update([t[0], t[2]])
                locs.add(t[1])
        for g in s["statics"]:
            for t in g["triples"]:
                names.update([t[0], t[2]])
                locs.add(t[1])
        for cmp_ in comps:
            for l in locs:
                names.add(cmp_ + l)
    return sorted(names)


def case_expr(c):
    steps = "; ".join("(%s, %d)" % (csds(s), s["now"]) for s in c["steps"])
    return "run_case [%s] %d %s %s [%s]" % ("; ".join(cstr(n) for n in case_names(c)), FUEL, crules(c["rules"]),
                                          cstate(c.get("init_state", [])), steps)


# ---- independent oracle ---------------------------------------------------------------------------
def alive_base(step):
    """(s, annotated p, o) -> list of expiries (one per listing component)."""
    now = step["now"]
    base = {}
    for w in step["windows"]:
        for (s, p, o, t) in w["triples"]:
            e = min(t + w["alpha"], INF)
            if e > now:
                base.setdefault((s, w["iri"] + p, o), []).append(e)
    for g in step["statics"]:
        for (s, p, o) in g["triples"]:
            base.setdefault((s, g["iri"] + p, o), []).append(INF)
    return base


def components(step):
    return [w["iri"] for w in step["windows"]] + [g["iri"] for g in step["statics"]] + list(step["outputs"])


def route(step, p):
    best = None
    for c in components(step):
        if p.startswith(c) and (best is None or len(c) > len(best)):
            best = c
    return best


def _match(pat, fact, b):
    b = dict(b)
    for t, v in zip(pat, fact):
        if "c" in t:
            if t["c"] != v:
                return None
        else:
            x = t["v"]
            if x in b:
                if b[x] != v:
                    return None
            else:
                b[x] = v
    return b


def least_model(rules, facts):
    facts = set(facts)
    while True:
        add = set()
        for r in rules:
            if not r["prem"]:
                continue
            bs = [{}]
            for p in r["prem"]:
                bs = [b2 for b in bs for f in facts for b2 in [_match(p, f, b)] if b2 is not None]
                if not bs:
                    break
            for b in bs:
                for c in r["concl"]:
                    try:
                        f = tuple(t["c"] if "c" in t else b[t["v"]] for t in c)
                    except KeyError:
                        continue
                    if f not in facts:
                        add.add(f)
        if not add:
            return facts
        facts |= add


def oracle_E(rules, base):
    """E f = max over derivations of the min over leaves of the base expiry, by thresholds."""
    bmax = {f: max(es) for f, es in base.items()}
    levels = sorted(set(bmax.values()), reverse=True)
    E = {}
    for t in levels:
        for f in least_model(rules, [f for f, e in bmax.items() if e >= t]):
            if f not in E:
                E[f] = t
    return E


def oracle_state(rules, step):
    E = oracle_E(rules, alive_base(step))
    out = []
    for f, e in E.items():
        c = route(step, f[1])
        if c is not None:
            out.append((c, f[0], f[1], f[2], e))
    return sorted(out)


def window_consistent(prev, step):
    """The quantifier text, as a predicate on two consecutive contents (prev may be None)."""
    for w in step["windows"]:
        keys = [tuple(t[:3]) for t in w["triples"]]
        if len(keys) != len(set(keys)):
            return False
    if prev is None:
        return True
    if prev["now"] >= step["now"]:
        return False
    pw = {w["iri"]: w for w in prev["windows"]}
    for w in step["windows"]:
        if w["iri"] not in pw or pw[w["iri"]]["alpha"] != w["alpha"]:
            return False
        cur = {tuple(t[:3]): t[3] for t in w["triples"]}
        for t in pw[w["iri"]]["triples"]:
            if min(t[3] + w["alpha"], INF) > step["now"]:
                if tuple(t[:3]) not in cur or cur[tuple(t[:3])] < t[3]:
                    return False
    if len(pw) != len(step["windows"]):
        return False
    cur_st = {g["iri"]: {tuple(x) for x in g["triples"]} for g in step["statics"]}
    for g in prev["statics"]:          # static graphs keep their triples (they may gain some)
        if g["iri"] not in cur_st or not {tuple(x) for x in g["triples"]} <= cur_st[g["iri"]]:
            return False
    return sorted(prev["outputs"]) == sorted(step["outputs"])


# ---- generators -----------------------------------------------------------------------------------
TERMS = ["a", "b", "c", "d", "e"]
LOCALS = ["p", "q", "r"]


def gen_layout(rng):
    layouts = [
        (["http://w1/", "http://w2/"], ["http://g/"], ["http://out/"]),
        (["http://w1/", "http://w2/", "http://w3/"], ["http://g/"], ["http://out/"]),
        (["http://w1/", "http://w1/sub/"], ["http://g/"], ["http://out/", "http://out/deep/"]),
        (["w/", "w/x/", "v/"], ["g/"], ["o/"]),
        (["http://w1/", "http://w2/"], ["http://g/", "http://h/"], ["http://out/", "http://w1/derived/"]),
    ]
    return rng.choice(layouts)


def gen_rules(rng, wins, stats, outs):
    comps = wins + stats + outs
    apreds = [c + l for c in comps for l in LOCALS[:2]]
    wpreds = [c + l for c in wins for l in LOCALS[:2]]
    opreds = [c + l for c in outs for l in LOCALS[:2]]
    spreds = [c + l for c in stats for l in LOCALS[:2]]
    rules = []
    n = rng.choice([1, 2, 2, 3, 3, 4])
    V = lambda x: {"v": x}
    Cn = lambda c: {"c": c}
    for _ in range(n):
        k = rng.random()
        if k < 0.25:      # chain over two windows into an output
            r = {"prem": [[V("x"), Cn(rng.choice(wpreds)), V("y")], [V("y"), Cn(rng.choice(wpreds + spreds)), V("z")]],
                 "concl": [[V("x"), Cn(rng.choice(opreds)), V("z")]]}
        elif k < 0.45:    # recursion through an output predicate
            o = rng.choice(opreds)
            rules.append({"prem": [[V("x"), Cn(rng.choice(wpreds)), V("y")]], "concl": [[V("x"), Cn(o), V("y")]]})
            r = {"prem": [[V("x"), Cn(o), V("y")], [V("y"), Cn(rng.choice(wpreds + [o])), V("z")]],
                 "concl": [[V("x"), Cn(o), V("z")]]}
        elif k < 0.60:    # derived fact lands in a window component (coincides with base facts, re-derivation)
            w = rng.choice(wpreds)
            r = {"prem": [[V("x"), Cn(rng.choice(wpreds)), V("y")], [V("y"), Cn(w), V("z")]],
                 "concl": [[V("x"), Cn(w), V("z")]]}
        elif k < 0.70:    # symmetric / copy between windows
            r = {"prem": [[V("x"), Cn(rng.choice(wpreds)), V("y")]],
                 "concl": [[V("y"), Cn(rng.choice(wpreds + opreds)), V("x")]]}
        elif k < 0.80:    # static join, constant object, two conclusions
            r = {"prem": [[V("x"), Cn(rng.choice(spreds)), Cn(rng.choice(TERMS))], [V("x"), Cn(rng.choice(wpreds)), V("y")]],
                 "concl": [[V("y"), Cn(rng.choice(opreds)), V("x")], [V("x"), Cn(rng.choice(opreds)), V("x")]]}
        else:             # random shape
            np_ = rng.choice([1, 2, 2, 3])
            vs = ["x", "y", "z", "u"]
            prem = []
            for i in range(np_):
                s_ = V(vs[i]) if rng.random() < 0.85 else Cn(rng.choice(TERMS))
                o_ = V(vs[i + 1]) if rng.random() < 0.8 else (V(vs[rng.randrange(i + 1)]) if rng.random() < 0.5 else Cn(rng.choice(TERMS)))
                prem.append([s_, Cn(rng.choice(apreds)), o_])
            pv = sorted({t["v"] for p in prem for t in p if "v" in t})
            if not pv:
                continue
            concl = []
            for _c in range(rng.choice([1, 1, 2])):
                s_ = V(rng.choice(pv)) if rng.random() < 0.9 else Cn(rng.choice(TERMS))
                o_ = V(rng.choice(pv)) if rng.random() < 0.9 else Cn(rng.choice(TERMS))
                concl.append([s_, Cn(rng.choice(opreds + opreds + wpreds + spreds)), o_])
            r = {"prem": prem, "concl": concl}
        rules.append(r)
    rng.shuffle(rules)
    rules = rules[:4]
    if rules and rng.random() < 0.15:   # a variable in predicate position of one premise
        rng.choice(rng.choice(rules)["prem"])[1] = {"v": "pv"}
    return rules


def gen_history(rng, thorough=False):
    wins, stats, outs = gen_layout(rng)
    rules = gen_rules(rng, wins, stats, outs)
    alphas = {w: rng.choice([2, 3, 5, 8, 12]) for w in wins}
    nterms = rng.choice([3, 4, 5])
    T = TERMS[:nterms]
    statics = [{"iri": g, "triples": sorted({(rng.choice(T), rng.choice(LOCALS[:2]), rng.choice(T)) for _ in range(rng.randrange(0, 4))})} for g in stats]
    statics = [{"iri": g["iri"], "triples": [list(t) for t in g["triples"]]} for g in statics]
    content = {w: {} for w in wins}
    # local names that make a listing of window w coincide with an annotated predicate of a longer component
    # (IRI-prefix overlap): the same annotated triple listed by two components
    extra = {w: [c[len(w):] + l for c in wins + stats + outs if c != w and c.startswith(w) for l in LOCALS[:2]] for w in wins}
    steps = []
    now = rng.randrange(0, 4)
    nsteps = rng.randrange(5, 11)
    for _ in range(nsteps):
        prev = now
        now = now + rng.choice([1, 1, 1, 2, 2, 3, 4, 7, 15])
        # arrivals with timestamps in (prev, now]; a re-arrival renews (latest arrival time kept)
        for w in wins:
            for _a in range(rng.choice([0, 1, 1, 2, 3])):
                if content[w] and rng.random() < 0.35:
                    key = rng.choice(sorted(content[w]))          # renewal of a listed triple
                else:
                    loc = rng.choice(extra[w]) if extra[w] and rng.random() < 0.3 else rng.choice(LOCALS[:2])
                    key = (rng.choice(T), loc, rng.choice(T))
                t = rng.randrange(prev + 1, now + 1) if rng.random() < 0.9 else max(0, prev - rng.randrange(0, 3))
                if key not in content[w] or content[w][key] < t:
                    content[w][key] = t
        # eviction: expired entries may linger (lazy eviction) but alive ones always stay
        for w in wins:
            for key in sorted(content[w]):
                if content[w][key] + alphas[w] <= now and rng.random() < 0.7:
                    del content[w][key]
        if statics and rng.random() < 0.08:     # a static graph gains a triple (possibly one that is alive with a finite expiry)
            statics = json.loads(json.dumps(statics))
            statics[rng.randrange(len(statics))]["triples"].append([rng.choice(T), rng.choice(LOCALS[:2]), rng.choice(T)])
        step = {"now": now,
                "windows": [{"iri": w, "alpha": alphas[w], "triples": [list(k) + [t] for k, t in sorted(content[w].items())]} for w in wins],
                "statics": statics, "outputs": outs}
        for w in step["windows"]:
            rng.shuffle(w["triples"])
        steps.append(step)
    # repeat: every incremental call is made twice on freshly built hash maps; the results must coincide
    return {"rules": rules, "steps": steps, "repeat": 2}


def gen_function_level(rng):
    """One step from an arbitrary (functional) previous state: exercises the d_old / d_new split, the seeding
    of tags and the routing on states that a history need not reach.  Model versus implementation only."""
    c = gen_history(rng)
    step = rng.choice(c["steps"])
    comps = components(step)
    apreds = [x + l for x in comps for l in LOCALS[:2]] + ["urn:none/" + LOCALS[0]]
    init, seen = [], set()
    for _ in range(rng.randrange(0, 7)):
        f = (rng.choice(TERMS[:4]), rng.choice(apreds), rng.choice(TERMS[:4]))
        if f in seen:
            continue
        seen.add(f)
        e = rng.choice([step["now"] - 1, step["now"], step["now"] + 1, step["now"] + 3, step["now"] + 9, INF]) if step["now"] > 0 else rng.choice([0, 1, 5, INF])
        init.append([rng.choice(comps + ["urn:other/"]), f[0], f[1], f[2], max(0, e)])
    return {"rules": c["rules"], "steps": [step], "init_state": init}


def gen_exhaustive(thorough=False):
    """Every small history of a fixed scenario: a chain over two windows (widths 2 and 3) into an output, a fact
    derived from a derived fact, and a derived fact that lands in a window component through a static fact.
    Enumerated: arrival time of the first fact, an optional renewal, arrival time of the second fact, every
    increasing triple of evaluation times, and whether expired entries linger in the content.  All boundaries
    (expiry = now, renewal at the expiry, equal expiries on both premises) occur."""
    import itertools
    W, V2, G, O = "http://w1/", "http://w2/", "http://g/", "http://out/"
    V = lambda x: {"v": x}
    Cn = lambda c: {"c": c}
    rules = [
        {"prem": [[V("x"), Cn(W + "p"), V("y")], [V("y"), Cn(V2 + "p"), V("z")]], "concl": [[V("x"), Cn(O + "p"), V("z")]]},
        {"prem": [[V("x"), Cn(O + "p"), V("y")]], "concl": [[V("y"), Cn(O + "q"), V("x")]]},
        {"prem": [[V("x"), Cn(G + "p"), V("y")], [V("y"), Cn(O + "q"), V("z")]], "concl": [[V("x"), Cn(W + "p"), V("z")]]},
    ]
    aw, av = 2, 3
    statics = [{"iri": G, "triples": [["d", "p", "c"]]}]
    cases = []
    for t1 in (0, 1, 2):
        for r1 in ((None, 2, 3, 4) if thorough else (None, 2, 3)):
            if r1 is not None and r1 <= t1:
                continue
            for t2 in ((0, 1, 2, 3) if thorough else (0, 1, 2)):
                for times in itertools.combinations(range(1, 8 if thorough else 6), 3):
                    for linger in (False, True):
                        steps = []
                        for now in times:
                            arr = [a for a in (t1, r1) if a is not None and a <= now]
                            wl, vl = [], []
                            if arr and (max(arr) + aw > now or linger):
                                wl.append(["a", "p", "b", max(arr)])
                            if t2 <= now and (t2 + av > now or linger):
                                vl.append(["b", "p", "c", t2])
                            steps.append({"now": now, "windows": [{"iri": W, "alpha": aw, "triples": wl}, {"iri": V2, "alpha": av, "triples": vl}],
                                          "statics": statics, "outputs": [O]})
                        cases.append({"rules": rules, "steps": steps})
    return cases


def gen_nanos(rng):
    """A window-consistent history moved to nanosecond-resolution Unix timestamps (about 1.7e18, beyond 2^53, where
    neighbouring u64 values are not distinguishable as f64): times and widths of a random history are mapped by
    t -> T0 + k*t, so renewals extend expiries by 1..200 units.  Everything stays exact in the model (N), in the
    driver (u64) and in this file (Python ints)."""
    c = gen_history(rng)
    T0 = 1_700_000_000_000_000_000 + rng.randrange(0, 100000)
    k = rng.choice([1, 1, 2, 5, 13])
    steps = json.loads(json.dumps(c["steps"]))
    for s in steps:
        s["now"] = T0 + k * s["now"]
        for w in s["windows"]:
            w["alpha"] = k * w["alpha"]
            for tr in w["triples"]:
                tr[3] = T0 + k * tr[3]
    return {"rules": c["rules"], "steps": steps, "repeat": 2}


def gen_perturbed(rng):
    """Histories outside the property's quantifier (alive facts dropped early, arrival times going back, static
    graphs that change, a triple listed twice, saturating widths, evaluation at u64::MAX).  No oracle: the
    implementation must still agree with the model, which is what ties the model to the code where the
    theorems' hypotheses do not hold."""
    c = gen_history(rng)
    steps = json.loads(json.dumps(c["steps"]))
    kind = rng.choice(["drop", "back", "static", "dup", "saturate", "maxnow", "equal_times"])
    k = rng.randrange(1, len(steps))
    if kind == "drop":
        for w in steps[k]["windows"]:
            if w["triples"]:
                w["triples"].pop(rng.randrange(len(w["triples"])))
    elif kind == "back":
        for w in steps[k]["windows"]:
            for t in w["triples"]:
                if rng.random() < 0.5:
                    t[3] = max(0, t[3] - rng.randrange(1, 4))
    elif kind == "static":
        for s in steps[k:]:
            s["statics"] = json.loads(json.dumps(s["statics"]))
            g = s["statics"][0]
            if g["triples"] and rng.random() < 0.5:
                g["triples"] = g["triples"][1:]
            else:
                donors = [t for w in steps[k - 1]["windows"] for t in w["triples"]]
                if donors:
                    d = rng.choice(donors)
                    g["triples"] = g["triples"] + [[d[0], d[1], d[2]]]
    elif kind == "dup":
        for w in steps[k]["windows"]:
            if w["triples"]:
                d = list(rng.choice(w["triples"]))
                d[3] = max(0, d[3] + rng.choice([-1, 1, 2]))
                w["triples"].insert(rng.randrange(len(w["triples"]) + 1), d)
    elif kind == "saturate":
        wi = rng.randrange(len(steps[0]["windows"]))
        for s in steps:
            s["windows"][wi]["alpha"] = INF - rng.choice([0, 1, 5])
    elif kind == "maxnow":
        steps[-1]["now"] = INF
        if len(steps) > 2:
            steps[-2]["now"] = INF - 1
    else:
        steps[k]["now"] = steps[k - 1]["now"]
    return {"rules": c["rules"], "steps": steps, "perturbation": kind}


# ---- evaluation -----------------------------------------------------------------------------------
def canon_inc(ix, rows):
    n = len(ix)
    return sorted((ix.get(r[0], n), ix.get(r[1], n), ix.get(r[2], n), ix.get(r[3], n), r[4]) for r in rows)


def canon_ext(ix, rows):
    n = len(ix)
    return sorted((ix.get(r[0], n), ix.get(r[1], n), ix.get(r[0] + r[2], n), ix.get(r[3], n)) for r in rows)


def unopt(v):
    """parse_coq renders `Some x` as ("Some", x) and `None` as None."""
    if isinstance(v, tuple) and len(v) == 2 and v[0] == "Some":
        return v[1]
    return None


def evaluate(ctx, binpath, cases, stream, oracle=True):
    impl = ctx.run_impl(binpath, cases)
    model = ctx.run_model("CrossWindow", ["KV.CrossWindow.Model", "KV.CrossWindow.Spec", "KV.CrossWindow.Run"],
                          [case_expr(c) for c in cases], preamble="Open Scope N_scope.")
    ctx.log("%s: %d cases evaluated by the implementation and the model" % (stream, len(cases)))
    nmis = nviol = nsteps = 0
    dist = {"steps": 0, "rules": 0, "derived_entries": 0, "entries": 0, "d_old_steps": 0, "renewal_steps": 0, "empty_results": 0}
    for c, im, mo in zip(cases, impl, model):
        if isinstance(mo, tuple) and mo and mo[0] == "ERROR":
            ctx.broken("correspondence", stream, "model evaluation failed: %s" % (mo[1],), c)
            continue
        if "outs" not in im:
            ctx.violation(c, {"what": "implementation panicked / died on a cross-window history", "impl": im})
            nviol += 1
            continue
        dist["rules"] += len(c["rules"])
        ix = {s: i for i, s in enumerate(case_names(c))}
        nontrivial = False
        prev_step, prev_inc = None, None
        consistent = True
        for k, step in enumerate(c["steps"]):
            ctx.count()
            nsteps += 1
            out = im["outs"][k]
            i_inc = canon_inc(ix, out["inc"])
            i_naive = canon_ext(ix, out["naive"])
            i_ext = canon_ext(ix, out["ext"])
            if k >= len(mo) or unopt(mo[k][0]) is None or unopt(mo[k][1]) is None:
                ctx.broken("correspondence", stream, "model ran out of fuel at step %d" % k, c)
                break
            m_inc = sorted(tuple(x) for x in unopt(mo[k][0]))
            m_naive = sorted(tuple(x) for x in unopt(mo[k][1]))
            m_spec = sorted(tuple(x) for x in unopt(mo[k][2])) if unopt(mo[k][2]) is not None else None
            in_domain = oracle and "init_state" not in c
            if in_domain:
                consistent = consistent and window_consistent(prev_step, step)
            bad = None
            if in_domain and consistent:
                o_inc = canon_inc(ix, oracle_state(c["rules"], step))
                if m_spec is not None and m_spec != o_inc:
                    ctx.broken("spec-oracle", stream, "Spec.v spec_state and the brute-force oracle disagree at step %d" % k,
                               {"case": c, "coq": m_spec[:6], "python": o_inc[:6]})
                if i_inc != o_inc:
                    bad = {"what": "incremental materialisation differs from E over the alive facts (fact set or expiry)",
                           "step": k, "now": step["now"],
                           "only_impl": [r for r in out["inc"] if canon_inc(ix, [r])[0] not in set(o_inc)][:8],
                           "only_spec": [r for r in oracle_state(c["rules"], step) if canon_inc(ix, [r])[0] not in set(i_inc)][:8]}
                elif sorted(set(i_naive)) != sorted(x[:4] for x in o_inc):
                    bad = {"what": "naive_sds_plus differs from the least model of the alive facts, hence from the incremental fact sets",
                           "step": k, "now": step["now"], "naive": out["naive"][:12]}
                elif not out.get("stable", True):
                    bad = {"what": "incremental result depends on hash iteration order", "step": k}
            if bad:
                ctx.violation({"rules": c["rules"], "steps": c["steps"][:k + 1]}, bad)
                nviol += 1
                break
            if i_inc != m_inc or sorted(set(i_naive)) != m_naive or i_ext != sorted(x[:4] for x in i_inc):
                nmis += 1
                ctx.broken("correspondence", stream,
                           "implementation and model outputs differ at step %d but the Spec oracle accepts the implementation" % k,
                           {"case": c, "impl_inc": out["inc"][:10], "model_inc": m_inc[:10], "impl_naive": out["naive"][:10]})
                break
            # distribution / non-triviality
            base = alive_base(step)
            dist["steps"] += 1
            dist["entries"] += len(i_inc)
            nder = sum(1 for r in out["inc"] if (r[1], r[2], r[3]) not in base)
            dist["derived_entries"] += nder
            if not i_inc:
                dist["empty_results"] += 1
            if prev_inc is not None:
                carried = {(r[1], r[2], r[3]): r[4] for r in prev_inc if r[4] > step["now"]}
                newish = [f for f, es in base.items() if f not in carried or carried[f] < max(es)]
                renewed = [f for f in newish if f in carried]
                if carried:
                    dist["d_old_steps"] += 1
                if renewed:
                    dist["renewal_steps"] += 1
                if carried and newish and nder:
                    nontrivial = True
            prev_step, prev_inc = step, out["inc"]
        if nontrivial:
            ctx.nontrivial(json.dumps(c, sort_keys=True))
    ctx.stream(stream, cases=len(cases), impl_model_mismatches=nmis, spec_violations=nviol, **dist)


def load_corpus():
    d = os.path.join(vf.VERIF, "corpus", "C12")
    out = []
    if os.path.isdir(d):
        for fn in sorted(os.listdir(d)):
            if fn.endswith(".json"):
                out.append(json.load(open(os.path.join(d, fn))))
    return out


TRUSTED = [
    "Coq 8.16.1 kernel; vm_compute for running the model and Spec.v's oracle in the correspondence check",
    "hand-written Gallina model coq/CrossWindow/Model.v of cross_window_{incremental,naive,sds}.rs, the provenance round/driver and TagStore<ExpirationProvenance>",
    "the bucketed hash join of rules.rs is abstracted to plain pattern matching (its exactness is property C05's); seen_derivations de-duplication omitted (unobservable under min/max)",
    "dictionary ids abstracted to an injective encoding of the strings; HashMap/HashSet orders to list order (outputs compared as sorted sets)",
    "correspondence check: harness/src/bin/c12.rs (public API only), checks/c12.py generators, canonicalisation and the brute-force oracle",
]
ASSUME = ["evaluation times below u64::MAX",
          "the windows (IRI, width) and output IRIs do not change along a history; static graphs keep their triples (they may gain some)",
          "rules are positive, safe, have at least one premise and constant conclusion predicates that belong to a component"]


def harness(ctx):
    """The driver built against /repo's working tree.  VERIF_C12_BIN (development only, see notes/C12.md)
    substitutes a driver built against a private copy of the repository, so that a mutation self-test
    neither disturbs nor is disturbed by other developers working in /repo."""
    return os.environ.get("VERIF_C12_BIN") or ctx.harness("c12")


def replay_witnesses(ctx, binpath, corpus):
    """Known-finding witnesses and boundary witnesses: the implementation must behave as the model does; a known
    finding that still contradicts the oracle is reported as KNOWN-FINDING, a boundary witness is only recorded."""
    wit = [c for c in corpus if c.get("kind") in ("known", "boundary")]
    if not wit:
        return
    impl = ctx.run_impl(binpath, [c["case"] for c in wit], shards=1)
    model = ctx.run_model("CrossWindow", ["KV.CrossWindow.Model", "KV.CrossWindow.Spec", "KV.CrossWindow.Run"],
                          [case_expr(c["case"]) for c in wit], preamble="Open Scope N_scope.")
    listed = {k["id"] for k in ctx.known_findings()}
    reproduced = {}
    for c, im, mo in zip(wit, impl, model):
        ctx.count(len(c["case"]["steps"]))
        case = c["case"]
        ix = {s: i for i, s in enumerate(case_names(case))}
        if "outs" not in im or (isinstance(mo, tuple) and mo and mo[0] == "ERROR"):
            ctx.broken("correspondence", "witnesses", "witness %s could not be evaluated" % c["id"], {"impl": im, "model": str(mo)[:300]})
            continue
        differs, unstable, model_differs = [], False, False
        for k, step in enumerate(case["steps"]):
            out = im["outs"][k]
            o_inc = canon_inc(ix, oracle_state(case["rules"], step))
            i_inc = canon_inc(ix, out["inc"])
            if i_inc != o_inc:
                differs.append({"step": k, "now": step["now"], "implementation": out["inc"], "spec": oracle_state(case["rules"], step)})
            unstable = unstable or not out.get("stable", True)
            m_inc = unopt(mo[k][0]) if k < len(mo) else None
            if m_inc is None or sorted(tuple(x) for x in m_inc) != i_inc:
                model_differs = True
        ctx.stream("witnesses", **{c["id"] + ("/unstable" if c.get("unstable") else ""): "reproduced" if (differs or unstable) else "not reproduced"})
        if c["kind"] == "known":
            if differs or unstable:
                if c["id"] in listed:
                    reproduced.setdefault(c["id"], []).append(c["what"])
                else:
                    ctx.violation(case, {"what": c["what"], "first": (differs or [None])[0], "unstable": unstable})
            if model_differs and not c.get("unstable"):
                ctx.broken("correspondence", "witnesses", "model and implementation differ on the known-finding witness %s" % c["id"], case)
        else:
            if model_differs:
                ctx.broken("correspondence", "witnesses", "model and implementation differ on the boundary witness %s" % c["id"], case)
    for fid, whats in reproduced.items():
        ctx.known(fid, "; also: ".join(whats))


def run(ctx):
    ctx.coq("CrossWindow", "C12.v")
    binpath = harness(ctx)
    allc = load_corpus()
    corpus = [c for c in allc if c.get("kind", "history") == "history"]
    if corpus:
        evaluate(ctx, binpath, [c["case"] for c in corpus], "corpus")
    replay_witnesses(ctx, binpath, allc)
    n = 1500 if ctx.thorough else 150
    hist = [gen_history(ctx.rng, ctx.thorough) for _ in range(n)]
    ctx.sample({"rules": hist[0]["rules"], "first_steps": hist[0]["steps"][:2]})
    evaluate(ctx, binpath, hist, "histories")
    ex = gen_exhaustive(ctx.thorough)
    evaluate(ctx, binpath, ex, "exhaustive_boundaries")
    ctx.coverage["exhaustive"] = True
    ctx.coverage["exhaustive_scope"] = ("%d histories: chain scenario over two windows (widths 2, 3), arrival times 0-2 (thorough: 0-3), optional renewal at 2-3 (thorough: 2-4), "
                                        "every increasing triple of evaluation times from 1..%d, lingering or prompt eviction; 3 steps each" % (len(ex), 7 if ctx.thorough else 5))
    ns = [gen_nanos(ctx.rng) for _ in range(n)]
    evaluate(ctx, binpath, ns, "nanosecond_timestamps")
    fl = [gen_function_level(ctx.rng) for _ in range(n)]
    evaluate(ctx, binpath, fl, "function_level_arbitrary_state", oracle=False)
    pt = [gen_perturbed(ctx.rng) for _ in range(n)]
    evaluate(ctx, binpath, pt, "perturbed_outside_quantifier", oracle=False)
    ctx.finish(level="proof", rule=PROP_RULE, trusted_base=TRUSTED, assumptions=ASSUME)


def replay(ctx):
    """Replays a violation file (kind=violation: the failing history) or the first disagreeing case of an
    obligation file (kind=obligation-broken...)."""
    ctx.coq("CrossWindow", "C12.v")
    binpath = harness(ctx)
    r = ctx.replay
    case = r.get("case")
    if case is None:
        for b in r.get("broken", []):
            cs = b.get("case")
            if isinstance(cs, dict):
                case = cs.get("case", cs) if "steps" not in cs else cs
                if isinstance(case, dict) and "steps" in case:
                    break
                case = None
    if case is None or "steps" not in case:
        ctx.broken("replay", "replay", "the replay file names a broken obligation without a failing input: %s"
                   % json.dumps([b.get("name") for b in r.get("broken", [])]))
    else:
        evaluate(ctx, binpath, [case], "replay", oracle="init_state" not in case)
    ctx.finish(level="proof", rule=PROP_RULE, trusted_base=TRUSTED, assumptions=ASSUME)
