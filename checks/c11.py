"""C11 - multi-window results are joins of what each window itself reported (DESIGN.md section 7, C11).

Theorems: coq/Rsp11/C11.v about the Gallina model coq/Rsp11/Model.v of the shared R2R store, the per-window
processors, process_single_thread_window_results / the coordinator's bookkeeping, emit_results, join_window_results,
natural_join and the separate static store.
Correspondence: the real RSPEngine (1-3 windows, optional static patterns, each sync policy) in SingleThread mode
against `KV.Rsp11.Run.check_st` (model emissions per call), in MultiThread lockstep mode against the coordinator model,
and in free-running MultiThread mode under seeded schedule perturbations against the Spec oracle only.
Oracle: `KV.Rsp11.Spec.goodb` evaluated on the implementation's emitted solutions with the window contents reported
by probe windows.  Known finding C11-shared-store-leak: class `known_C11` (Spec.v), counted and skipped.
"""
import glob
import json
import os
import sys

import vf

PROP_RULE = ("a case is one multi-window query (1-3 windows with RANGE/STEP, WINDOW blocks of 1-2 triple patterns that may share "
             "variables, optional static pattern + static triples, a sync policy, a stream operator) and interleaved in-order "
             "streams (4 subjects x 3 predicates x 3 objects, vocabulary shared between streams or disjoint), run single-threaded, "
             "multi-threaded in lockstep and multi-threaded under seeded schedule perturbations; non-trivial when the "
             "single-thread run emitted at least one solution and every window fired; distinct by the rendered case.")
FINDING_ID = "C11-shared-store-leak"

E = "http://v/"
ENT = ["e0", "e1", "e2", "e3"]
OBJ = ["e0", "e1", "e2"]
PRED = ["p0", "p1", "p2"]
TID = {"e0": 1, "e1": 2, "e2": 3, "e3": 4, "p0": 11, "p1": 12, "p2": 13, "q0": 21, "q1": 22, "q2": 23,
       "r0": 31, "r1": 32, "r2": 33, "r3": 34, "r4": 35, "r5": 36}
# literals with blanks / shared prefixes whose space-joined concatenations coincide
LITS = ["Anna Maria", "Smith", "Anna", "Maria Smith", "Anna Maria Smith", "Maria", "A", "B C", "A B", "C", "B", "C D", "D", "A B C"]
LID = {t: 101 + i for i, t in enumerate(LITS)}
QVARS = ["a", "b", "c", "d", "e", "f", "o", "p", "s"]     # alphabetical = numerical; o, p, s: the default plan ?s ?p ?o
# stream IRIs that differ only in the namespace part (equal local names), '#'- and ':'-separated forms included
BVARS = QVARS[:6]
NS_STREAMS = ["http://siteA.example/obs", "http://siteB.example/obs", "http://siteB.example/ns#obs", "urn:plant1:obs",
              "urn:plant2:obs", "http://siteA.example/deep/obs"]
OPS = {"R": "RSTREAM", "I": "ISTREAM", "D": "DSTREAM"}
POL = {"wait": "Wait", "steal": "Steal", "timeout_steal": "TimeoutSteal", "timeout_drop": "TimeoutDrop"}


# ---- rendering ---------------------------------------------------------------------------------
def iri(x):
    return "<%s%s>" % (E, x)


def tid(x):
    return TID[x] if x in TID else LID[x]


def nt_term(x):
    return '"%s"' % x if x in LID else iri(x)


def term_txt(t):
    return "?" + t[1] if t[0] == "v" else nt_term(t[1])


def pats_txt(pats):
    return " ".join("%s %s %s ." % tuple(term_txt(x) for x in p) for p in pats)


def stream_ref(key):
    """how the query names a stream: a full IRI in <>, a plain name as :name"""
    return "<%s>" % key if (":" in key or "/" in key) else ":" + key


def stream_arg(key, k):
    """the spelling handed to add_to_stream for the k-th event: all of them denote the same stream
    (normalize_stream_iri: trim, strip all leading '<' / trailing '>', strip one leading ':')"""
    if ":" in key or "/" in key:
        return [key, "<%s>" % key, "  %s \n" % key, "<<%s>>" % key, "\t<%s> " % key][k % 5]
    return [key, ":" + key, " :%s\t" % key, "<%s>" % key, "<:%s>" % key][k % 5]


def coq_str(s):
    return "[" + "; ".join(str(ord(ch)) for ch in s) + "]"


def block_order(c):
    order = c.get("block_order") or list(range(len(c["windows"])))
    return [i for i in order if i not in (c.get("no_block") or [])]


def query_txt(c):
    q = "REGISTER %s <http://out/stream> AS\nSELECT *\n" % OPS[c["op"]]
    for i, w in enumerate(c["windows"]):
        q += "FROM NAMED WINDOW :w%d ON %s [RANGE %d STEP %d]\n" % (i, stream_ref(w["stream"]), w["w"], w["s"])
    q += "WHERE {\n"
    for i in block_order(c):             # WINDOW blocks in the textual order of the case, tied to windows by NAME
        q += "  WINDOW :w%d { %s }\n" % (i, pats_txt(c["blocks"][i]))
    if c["static_p"]:
        q += "  %s\n" % pats_txt(c["static_p"])
    return q + "}"


def can_lockstep(c):
    streams = [w["stream"] for w in c["windows"]]
    return len(set(streams)) == len(streams) and not c["policy"].startswith("timeout")


def driver_case(c, seeds):
    ids, evs = {}, []
    for k, (stream, s, p, o, ts) in enumerate(c["evs"]):
        key = (s, p, o)
        ids.setdefault(key, len(ids) + 1)
        evs.append({"stream": stream, "stream_arg": stream_arg(stream, k),
                    "nt": "%s %s %s ." % (nt_term(s), nt_term(p), nt_term(o)), "id": ids[key], "ts": ts})
    return ({"windows": c["windows"], "query": query_txt(c),
             "static": "".join("%s %s %s .\n" % tuple(nt_term(x) for x in t) for t in c["static_t"]),
             "policy": c["policy"], "evs": evs, "stop": bool(c.get("stop")), "seeds": seeds,
             "coord": len(c["windows"]) > 1 or bool(c["static_p"]), "lockstep": can_lockstep(c),
             "hold_coord": bool(c.get("hold_coord"))},
            {v: k for k, v in ids.items()})


def coq_term(t):
    return "V %d" % QVARS.index(t[1]) if t[0] == "v" else "C %d" % tid(t[1])


def coq_pats(pats):
    return "[" + "; ".join("(%s, %s, %s)" % tuple(coq_term(x) for x in p) for p in pats) + "]"


def coq_triples(ts):
    return "[" + "; ".join("(%d, %d, %d)" % (tid(t[0]), tid(t[1]), tid(t[2])) for t in ts) + "]"


def coq_cfg(c):
    """window names (= indices) in declaration order, WINDOW blocks in textual order with their names: the model pairs
    them by name (Model.pair_blocks), a declared window without a block gets ?s ?p ?o"""
    named = "; ".join("(%d, %s)" % (i, coq_pats(c["blocks"][i])) for i in block_order(c))
    return "(mk_cfg [%s] [%s] %s %s %s %s)" % ("; ".join(str(i) for i in range(len(c["windows"]))), named,
                                               "(Some %s)" % coq_pats(c["static_p"]) if c["static_p"] else "None",
                                               coq_triples(c["static_t"]), POL[c["policy"]], OPS[c["op"]])


def coq_rows(rows):
    return "[" + "; ".join("[" + "; ".join("(%d, %d)" % kv for kv in r) + "]" for r in rows) + "]"


def val_id(v):
    return TID[v[len(E):]] if v.startswith(E) else LID[v]       # IRIs come back bare, literals as their text


def canon_impl_rows(rows):
    return sorted(sorted((QVARS.index(k), val_id(v)) for k, v in row) for row in rows)


def canon_model_rows(rows):
    return sorted(sorted((int(k), int(v)) for k, v in row) for row in rows)


def _cn(c):
    c = dict(c)
    c["blocks"] = [[tuple(tuple(x) for x in p) for p in b] for b in c["blocks"]]
    c["static_p"] = [tuple(tuple(x) for x in p) for p in c["static_p"]]
    c["static_t"] = [tuple(t) for t in c["static_t"]]
    c["evs"] = [tuple(e) for e in c["evs"]]
    return c


# ---- generators ----------------------------------------------------------------------------------
def gen_pat(rng, vars_, preds):
    s = ("v", rng.choice(vars_)) if rng.random() < 0.9 else ("c", rng.choice(ENT))
    o = ("v", rng.choice(vars_)) if rng.random() < 0.85 else ("c", rng.choice(OBJ))
    return (s, ("c", rng.choice(preds)), o)


def gen_case(rng, nmax=24):
    nw = rng.choice([2, 2, 2, 3, 3, 1])
    share = rng.random() < 0.4                      # streams share their vocabulary (-> mostly the known class) or not
    streams = rng.sample(NS_STREAMS, nw) if rng.random() < 0.4 else ["s%d" % i for i in range(nw)]
    if nw >= 2 and rng.random() < 0.12:
        streams[1] = streams[0]                     # two windows over one stream
    wins = [{"w": rng.choice([1, 2, 3, 4, 6]), "s": rng.choice([1, 2, 2, 3, 4]), "stream": streams[i]} for i in range(nw)]
    spreds = {}
    for i, s in enumerate(sorted(set(streams))):
        spreds[s] = PRED if share else [PRED[i % 3]]
    blocks = []
    joinvars = rng.random() < 0.4                   # blocks share variables (a real join) or not (a product)
    for i in range(nw):
        vs = rng.sample(BVARS, rng.choice([2, 2, 3])) if joinvars else BVARS[2 * i:2 * i + 2]
        blocks.append([gen_pat(rng, vs, spreds[streams[i]]) for _ in range(rng.choice([1, 1, 1, 2]))])
    static_p, static_t = [], []
    if rng.random() < 0.35 or nw == 1:
        used = sorted({x[1] for b in blocks for p in b for x in p if x[0] == "v"})
        static_p = [(("v", rng.choice(used or BVARS)), ("c", "q0"), ("v", rng.choice(BVARS)))]
        static_t = [(rng.choice(ENT), "q0", rng.choice(OBJ)) for _ in range(rng.randint(0, 8))]
        if rng.random() < 0.4:                      # static triples that would match window blocks if they leaked
            static_t += [(rng.choice(ENT), rng.choice(PRED), rng.choice(OBJ)) for _ in range(4)]
    c = {"windows": wins, "blocks": blocks, "static_p": static_p, "static_t": static_t,
         "policy": rng.choice(["wait", "wait", "steal", "steal", "timeout_steal", "timeout_drop"]),
         "op": rng.choice("RRRRRID"), "stop": rng.random() < 0.6}
    if nw >= 2 and rng.random() < 0.5:              # WINDOW blocks written in another order than the declarations
        c["block_order"] = rng.sample(range(nw), nw)
    ts = {s: 0 for s in streams}
    evs = []
    for _ in range(rng.randint(8, nmax)):
        s = rng.choice(streams)
        ts[s] += rng.choice([0, 1, 1, 1, 2, 3])
        evs.append((s, rng.choice(ENT), rng.choice(spreds[s]), rng.choice(OBJ), ts[s]))
    c["evs"] = evs
    return c


def _fill(rng, streams, spreds, n, order=None):
    """n random in-order events; `order` (a list of stream keys) fixes which stream the k-th event goes to"""
    ts = {s: 0 for s in streams}
    evs = []
    for k in range(n):
        s = order[k] if order else rng.choice(streams)
        ts[s] += rng.choice([1, 1, 1, 2])
        evs.append((s, rng.choice(ENT), rng.choice(spreds[s]), rng.choice(OBJ), ts[s]))
    return evs, ts


def gen_routing_case(rng):
    """streams whose IRIs differ only in the namespace; every window has its own predicate (outside the known class);
    the LAST item of a later-declared window's stream is a stray that would match an earlier window's block: with correct
    routing it is only ever reported by its own window, at the flush, after the earlier window's last firing"""
    nw = rng.choice([2, 2, 3])
    streams = rng.sample(NS_STREAMS, nw)
    preds = rng.sample(["p0", "p1", "p2", "r0", "r1"], nw)
    wins = [{"w": rng.choice([2, 3, 4, 6]), "s": rng.choice([1, 2, 3]), "stream": streams[i]} for i in range(nw)]
    blocks = [[(("v", BVARS[2 * i]), ("c", preds[i]), ("v", BVARS[2 * i + 1]))] for i in range(nw)]
    spreds = {streams[i]: [preds[i]] for i in range(nw)}
    evs, ts = _fill(rng, streams, spreds, rng.randint(3 * nw, 14))
    for i in range(nw):                              # every window has something to report
        ts[streams[i]] += 1
        evs.append((streams[i], rng.choice(ENT), preds[i], rng.choice(OBJ), ts[streams[i]]))
    j = rng.randrange(1, nw)
    i = rng.randrange(0, j)
    evs.append((streams[j], "e3", preds[i], "e3", ts[streams[j]] + 1))      # the stray, last on stream j
    c = {"windows": wins, "blocks": blocks, "static_p": [], "static_t": [], "policy": rng.choice(["wait", "steal"]),
         "op": "R", "stop": True, "evs": evs}
    if rng.random() < 0.5:
        c["block_order"] = rng.sample(range(nw), nw)
    return c


def gen_pairing_case(rng):
    """WINDOW blocks written in another order than the FROM NAMED WINDOW declarations (or a declared window without a
    block); every window has its own predicate; the first window's stream starts with a decoy that would match ANOTHER
    window's block and has left the first window before the other windows report anything"""
    nw = rng.choice([2, 2, 3])
    streams = ["s%d" % i for i in range(nw)] if rng.random() < 0.5 else rng.sample(NS_STREAMS, nw)
    preds = rng.sample(["p0", "p1", "p2", "r0", "r1"], nw)
    wins = [{"w": rng.choice([1, 2]), "s": rng.choice([1, 2]), "stream": streams[i]} for i in range(nw)]
    blocks = [[(("v", BVARS[2 * i]), ("c", preds[i]), ("v", BVARS[2 * i + 1]))] for i in range(nw)]
    c = {"windows": wins, "blocks": blocks, "static_p": [], "static_t": [], "policy": rng.choice(["wait", "steal"]), "op": "R"}
    j = rng.randrange(1, nw)
    evs = [(streams[0], "e3", preds[j], "e3", 1)]                         # the decoy
    t0 = 1
    for _ in range(rng.randint(4, 7)):                                    # stream 0 moves on: the decoy is evicted
        t0 += rng.choice([1, 2])
        evs.append((streams[0], rng.choice(ENT), preds[0], rng.choice(OBJ), t0))
    if rng.random() < 0.2:
        # a declared window without a block (plan ?s ?p ?o): only outside the known class while the store holds nothing
        # but its own content, so its stream comes first and there is no flush
        c["no_block"] = [0]
        c["blocks"][0] = [(("v", "s"), ("v", "p"), ("v", "o"))]
        c["stop"] = False
    else:
        c["block_order"] = rng.choice([o for o in __import__("itertools").permutations(range(nw)) if list(o) != list(range(nw))])
        c["block_order"] = list(c["block_order"])
        c["stop"] = rng.random() < 0.7
    rest = [s for s in streams[1:] for _ in range(rng.randint(2, 4))] + [streams[0]] * rng.randint(0, 2 if not c.get("no_block") else 0)
    rng.shuffle(rest)
    ts = {s: 0 for s in streams}
    ts[streams[0]] = t0
    for s in rest:
        ts[s] += rng.choice([1, 1, 2])
        evs.append((s, rng.choice(ENT), preds[streams.index(s)], rng.choice(OBJ), ts[s]))
    c["evs"] = evs
    return c


def gen_litjoin_case(rng):
    """joins on 2-3 shared variables whose values are literals with blanks and concatenation-ambiguous combinations
    ("Anna Maria","Smith") / ("Anna","Maria Smith"); window x window and window x static; own predicates per side"""
    k = rng.choice([2, 2, 3])
    shared = ["d", "e", "f"][:k]
    lp = ["r0", "r1", "r2"][:k]                       # left side: ?a r_i ?shared_i
    rp = ["r3", "r4", "r5"][:k]                       # right side: ?b r_(3+i) ?shared_i
    pool2 = [("Anna Maria", "Smith"), ("Anna", "Maria Smith"), ("Anna", "Smith"), ("Anna Maria Smith", "Maria"), ("Anna Maria", "Maria Smith")]
    pool3 = [("A", "B C", "D"), ("A B", "C", "D"), ("A", "B", "C D"), ("A B C", "D", "D"), ("A", "B C", "C D"), ("A B", "C", "C D")]
    pool = pool2 if k == 2 else pool3
    left = [(("v", "a"), ("c", lp[i]), ("v", shared[i])) for i in range(k)]
    right = [(("v", "b"), ("c", rp[i]), ("v", shared[i])) for i in range(k)]
    static = rng.random() < 0.45
    streams = ["s0"] if static else (["s0", "s1"] if rng.random() < 0.5 else rng.sample(NS_STREAMS, 2))
    width = rng.choice([4, 6, 8])
    wins = [{"w": width, "s": rng.choice([2, width]), "stream": st} for st in streams]
    c = {"windows": wins, "blocks": [left] if static else [left, right], "static_p": right if static else [], "static_t": [],
         "policy": rng.choice(["wait", "steal"]), "op": rng.choice("RRRI"), "stop": True}
    if not static and rng.random() < 0.5:
        c["block_order"] = [1, 0]
    evs, ts = [], {st: 0 for st in streams}

    def person(stream, subj, preds_, vals):
        ts[stream] += 1
        for pr, v in zip(preds_, vals):
            evs.append((stream, subj, pr, v, ts[stream]))
    for _ in range(rng.randint(2, 4)):
        person(streams[0], rng.choice(ENT), lp, rng.choice(pool))
        if not static:
            person(streams[1], rng.choice(ENT), rp, rng.choice(pool))
    if static:                                         # one subject per static person
        for subj, vals in zip(ENT, rng.sample(pool, rng.randint(2, 4))):
            c["static_t"] += [(subj, pr, v) for pr, v in zip(rp, vals)]
    c["evs"] = evs
    return c


def load_corpus():
    out = []
    for fn in sorted(glob.glob(os.path.join(vf.VERIF, "corpus", "C11", "*.json"))):
        d = json.load(open(fn))
        for c in (d if isinstance(d, list) else [d]):
            out.append(_cn(c.get("case", c)))
    return out


# ---- the check -------------------------------------------------------------------------------------
def infra(msg):
    print("[C11] infrastructure error (not a verdict): %s" % msg)
    sys.exit(2)


def acts_of(calls, idmap):
    """the single-thread history as model actions, and for every call the index of its Drain action"""
    acts, drain_at = [], []
    for call in calls:
        fires = ["Fire %d %s" % (i, coq_triples([idmap[x] for x in ids])) for i, ids in call["firings"]]
        if call["k"] >= 0:
            drain_at.append(len(acts))
            acts += ["Drain"] + fires
        else:
            acts += fires
            drain_at.append(len(acts))
            acts.append("Drain")
    return acts, drain_at


def run_impl_robust(ctx, binpath, dcs):
    """ctx.run_impl with ONE re-run: a driver shard that was killed from outside (out-of-memory killer) is re-run once;
    when the driver itself crashed (abort, segfault) only the first unanswered case of the shard is the culprit (reported
    as behaviour), the cases after it are re-run.  A shard that ran into the framework's time limit is never re-run, and
    a driver that reports a run blocked inside the engine ends the check: both are infrastructure errors (exit 2)."""
    KILL = (-9, 137, -15, 143)
    TIMEOUT = (124,)
    res = ctx.run_impl(binpath, dcs)

    def died(r):
        return isinstance(r, dict) and r.get("driver_died")
    if any(died(r) and r.get("rc") in TIMEOUT for r in res):
        infra("a driver shard ran into the time limit")
    confirmed = set()
    for attempt in range(2):
        dead = [i for i, r in enumerate(res) if died(r) and i not in confirmed]
        if not dead:
            break
        rerun = []
        for i in dead:
            first_of_group = (i - 1) not in dead
            if first_of_group and res[i].get("rc") not in KILL:
                confirmed.add(i)
            else:
                rerun.append(i)
        if not rerun or attempt == 1:
            break
        again = ctx.run_impl(binpath, [dcs[i] for i in rerun])
        for i, r in zip(rerun, again):
            res[i] = r
    if any(died(r) and (r.get("rc") in KILL + TIMEOUT) for r in res):
        infra("the driver process was killed from outside again after one re-run (machine overloaded?)")
    blocked = [r for r in res if isinstance(r, dict) and r.get("blocked")]
    if blocked:
        infra("a run did not come back from the engine within its deadline (%s); the remaining cases of that driver process "
              "were not run" % blocked[0].get("where"))
    return res


def run_model_robust(ctx, sub, reqs, exprs):
    """ctx.run_model, re-running (twice at most) the expressions whose coqc shard was killed (out-of-memory killer on a
    loaded machine) or timed out; if that keeps happening it is an infrastructure error, never a verdict"""
    def killed(r):
        return (isinstance(r, tuple) and len(r) == 2 and r[0] == "ERROR" and
                any(k in str(r[1]) for k in ("rc=-9", "rc=137", "rc=-15", "rc=143", "rc=124", "[timeout", "Killed", "Out of memory")))
    res = ctx.run_model(sub, reqs, exprs, preamble="Open Scope N_scope.")
    for _ in range(2):
        bad = [i for i, r in enumerate(res) if killed(r)]
        if not bad:
            break
        again = ctx.run_model(sub, reqs, [exprs[i] for i in bad], preamble="Open Scope N_scope.")
        for i, r in zip(bad, again):
            res[i] = r
    if any(killed(r) for r in res):
        infra("the coqc process evaluating the model was killed or timed out repeatedly (machine overloaded?)")
    return res


def evaluate(ctx, binpath, cases, stream, nseeds, witness_ids=()):
    cases = [_cn(c) for c in cases]
    dcs, idmaps = [], []
    for i, c in enumerate(cases):
        seeds = [1 + ((ctx.seed * 1000003 + i * 8191 + k * 131) % (2 ** 31)) for k in range(nseeds)]
        dc, idmap = driver_case(c, seeds)
        dcs.append(dc)
        idmaps.append(idmap)
    impl = run_impl_robust(ctx, binpath, dcs)
    exprs, meta = [], []
    for c, im, idmap in zip(cases, impl, idmaps):
        if not im or "calls" not in im:
            meta.append(None)
            continue
        cfg = coq_cfg(c)
        acts, drain_at = acts_of(im["calls"], idmap)
        impl_per_act = [[] for _ in acts]
        for call, d in zip(im["calls"], drain_at):
            impl_per_act[d] = canon_impl_rows(call["rows"])
        e_st = "check_st %s [%s] [%s]" % (cfg, "; ".join(acts), "; ".join(coq_rows(r) for r in impl_per_act))
        nw = len(c["windows"])
        reports = "[" + "; ".join("(%d, [%s])" % (i, "; ".join(coq_triples([idmap[x] for x in ids])
                                                                 for call in im["calls"] for j, ids in call["firings"] if j == i))
                                  for i in range(nw)) + "]"
        mt_rows = [canon_impl_rows(run["rows"]) for run in im["mt"]]
        e_mt = "[" + "; ".join("check_mt %s %s %s" % (cfg, reports, coq_rows(r)) for r in mt_rows) + "]"
        lock = im.get("lockstep")
        if lock and "calls" in lock:
            macts, ncalls = [], 0
            for call in im["calls"]:
                if call["k"] < 0:
                    continue
                ncalls += 1
                for i, ids in call["firings"]:
                    macts += ["MFire %d %s" % (i, coq_triples([idmap[x] for x in ids])), "MBatch 0"]
                macts.append("MDeadline")          # marks the end of the call (a no-op for Wait / Steal)
            e_lock = "model_mt %s [%s]" % (cfg, "; ".join(macts))
        else:
            e_lock = "model_mt %s []" % cfg
        decl_strs = [stream_ref(w["stream"]) for w in c["windows"]]
        spellings = sorted({(e["stream_arg"], e["stream"]) for e in dcs[len(meta)]["evs"]})
        e_route = "route_table [%s] [%s]" % ("; ".join(coq_str(d) for d in decl_strs), "; ".join(coq_str(sp) for sp, _ in spellings))
        route_expected = [[key == w["stream"] for _, key in spellings] for w in c["windows"]]
        meta.append((len(exprs), drain_at, mt_rows, route_expected))
        exprs.append("(%s, %s, %s, %s)" % (e_st, e_mt, e_lock, e_route))
    model = run_model_robust(ctx, "Rsp11", ["KV.Rsp11.Model", "KV.Rsp11.Spec", "KV.Rsp11.Run"], exprs)
    st = {"cases": len(cases), "st_solutions": 0, "st_emitting_calls": 0, "known_class_st": 0, "known_class_mt_runs": 0, "mt_runs": 0,
          "mt_solutions": 0, "lockstep_runs": 0, "impl_model_mismatches": 0, "spec_violations": 0, "leaking_solutions_in_known_class": 0}
    witness_reproduced = {}
    for idx, (c, im, me) in enumerate(zip(cases, impl, meta)):
        ctx.count()
        if im is None or im.get("driver_died"):
            ctx.violation(c, {"what": "the driver process died while running this case", "impl": im})
            continue
        if "build_error" in im:
            ctx.broken("correspondence", stream, "the engine rejected a generated query: %s" % im["build_error"], c)
            continue
        if "panic" in im:
            ctx.violation(c, {"what": "the engine panicked (%s)" % im.get("where"), "panic": im["panic"]})
            st["spec_violations"] += 1
            continue
        mo = model[me[0]]
        if isinstance(mo, tuple) and mo and mo[0] == "ERROR":
            ctx.broken("correspondence", stream, "model evaluation failed: %s" % (mo[1],), c)
            continue
        m_emis, known, verdicts, mt_res, (lock_emis, lock_known), route_tbl = mo   # Coq prints left-nested pairs flat
        if route_tbl != me[3]:
            ctx.broken("correspondence", stream, "the model's stream routing (Routing.routes on the spellings of this case) differs from "
                       "routing by canonical stream IRI, which the probe windows use", {"case": c, "model": route_tbl, "expected": me[3]})
        drain_at = me[1]
        detail = None
        # ---- single thread: Spec oracle on the implementation's solutions, then model correspondence
        i_calls = [canon_impl_rows(call["rows"]) for call in im["calls"]]
        m_calls = [canon_model_rows(m_emis[d]) for d in drain_at]
        stray = [a for a in range(len(m_emis)) if a not in drain_at and m_emis[a]]
        bad = [(k, r) for k, d in enumerate(drain_at) for r, ok in zip(i_calls[k], verdicts[d]) if not ok]
        st["st_solutions"] += sum(len(r) for r in i_calls)
        st["st_emitting_calls"] += sum(1 for r in i_calls if r)
        if known:
            st["known_class_st"] += 1
            st["leaking_solutions_in_known_class"] += len(bad)
            if idx in witness_ids and bad:
                witness_reproduced[idx] = bad[0]
        elif bad:
            k, r = bad[0]
            detail = {"what": "single-thread mode: an emitted solution is not a join of answers over contents the windows themselves "
                              "reported (or its static part is not an answer over the static data)", "call": k, "solution": r,
                      "reported_so_far": [call["firings"] for call in im["calls"][:k + 1]]}
        # ---- multi thread, free running: Spec oracle only
        for run, (mknown, mverd), rows in zip(im["mt"], mt_res, me[2]):
            st["mt_runs"] += 1
            st["mt_solutions"] += len(rows)
            if run.get("timeout") and not run.get("thread_panicked"):
                infra("quiescence of the worker/coordinator threads could not be established within the timeout (seed %s, case %r)" % (run["seed"], c))
            if run.get("thread_panicked") and detail is None:
                detail = {"what": "multi-thread mode: a worker or the coordinator thread panicked", "seed": run["seed"]}
            expected = sum(len(call["firings"]) for call in im["calls"])
            if detail is None and (run["processed"] != expected or run["consumed"] != expected):
                ctx.broken("correspondence", stream, "multi-thread mode: %d firings expected, %d processed by the workers, %d consumed by "
                           "the coordinator" % (expected, run["processed"], run["consumed"]), c)
            mbad = [r for r, ok in zip(rows, mverd) if not ok]
            if mknown:
                st["known_class_mt_runs"] += 1
            elif mbad and detail is None:
                detail = {"what": "multi-thread mode (schedule seed %d): an emitted solution is not a join of answers over contents the "
                                  "windows themselves reported" % run["seed"], "seed": run["seed"], "solution": mbad[0]}
        if detail is not None:
            st["spec_violations"] += 1
            ctx.violation(c, detail)
            continue
        if i_calls != m_calls or stray:
            st["impl_model_mismatches"] += 1
            k = next((i for i in range(len(m_calls)) if i_calls[i] != m_calls[i]), None)
            ctx.broken("correspondence", stream, "single-thread implementation and model differ (the Spec oracle accepts the implementation)",
                       {"case": c, "call": k, "impl": i_calls[k] if k is not None else None, "model": m_calls[k] if k is not None else None})
        # ---- the engine's own windows must fire where the probe windows (the specification of routing + windowing) fire
        wrong = [(call["k"], len(call["firings"]), call.get("engine_firings")) for call in im["calls"]
                 if call.get("engine_firings") is not None and call["engine_firings"] != len(call["firings"])]
        if wrong:
            st["impl_model_mismatches"] += 1
            ctx.broken("correspondence", stream, "at call %s the engine handed %s window contents to its processors, the probe windows "
                       "fed by exact stream IRI report %s firings (stream routing / window registration differ)" % (wrong[0][0], wrong[0][2], wrong[0][1]),
                       {"case": c, "calls": wrong[:5]})
        # ---- multi thread, lockstep: coordinator model correspondence
        lock = im.get("lockstep")
        if lock and "calls" in lock:
            st["lockstep_runs"] += 1
            if lock.get("timeout") and not lock.get("thread_panicked"):
                infra("lockstep quiescence could not be established within the timeout (case %r)" % (c,))
            l_impl = [canon_impl_rows(r) for r in lock["calls"]]
            l_model, cur = [], []
            ncall = [call for call in im["calls"] if call["k"] >= 0]
            pos = 0
            for call in ncall:
                cur = []
                for _ in call["firings"]:
                    cur += lock_emis[pos] + lock_emis[pos + 1]
                    pos += 2
                cur += lock_emis[pos]
                pos += 1
                l_model.append(canon_model_rows(cur))
            if lock.get("thread_panicked") or l_impl != l_model or lock["tail"]:
                st["impl_model_mismatches"] += 1
                k = next((i for i in range(min(len(l_model), len(l_impl))) if l_impl[i] != l_model[i]), None)
                ctx.broken("correspondence", stream, "multi-thread lockstep run and coordinator model differ",
                           {"case": c, "call": k, "impl": l_impl[k] if k is not None else l_impl, "model": l_model[k] if k is not None else l_model,
                            "tail": lock["tail"], "thread_panicked": lock.get("thread_panicked")})
        fired = {i for call in im["calls"] for i, _ in call["firings"]}
        if any(i_calls) and len(fired) == len(c["windows"]):
            ctx.nontrivial(json.dumps(c, sort_keys=True, default=list))
        if c.get("hold_coord"):
            st["lagging_coordinator_cases"] = st.get("lagging_coordinator_cases", 0) + 1
        for key in ("policy", "op"):
            st["%s_%s" % (key, c[key])] = st.get("%s_%s" % (key, c[key]), 0) + 1
        st["windows_%d" % len(c["windows"])] = st.get("windows_%d" % len(c["windows"]), 0) + 1
        if c["static_p"]:
            st["with_static"] = st.get("with_static", 0) + 1
    ctx.stream(stream, **st)
    return witness_reproduced


TRUSTED = [
    "Coq 8.16.1 kernel; vm_compute for running the model and the Spec oracle in the correspondence check",
    "hand-written Gallina model coq/Rsp11/Model.v of the shared R2R store, create_window_processor!, "
    "process_single_thread_window_results, the coordinator's bookkeeping, emit_results, join_window_results, natural_join",
    "window plans are modelled as basic graph patterns over a duplicate-free list of triples (the store itself is property C04, "
    "plan execution property C01); validated against the real executor by the correspondence runs",
    "per-window contents are taken from probe CSPARQLWindows with the same parameters fed the same sub-stream (property C09)",
    "correspondence check: harness/src/bin/c11.rs (public API + add-only kolibrie_verif hooks in rsp_engine.rs), checks/c11.py",
    "free-running multi-thread runs are judged by the Spec oracle only (the schedule is not observable); the coordinator model is "
    "compared exactly only in lockstep runs; Timeout policies depend on the wall clock and are exercised, not modelled in time",
]
ASSUMPTIONS = [
    "in-order streams per stream IRI; OnWindowClose / TimeDriven windows; no reasoning rules, no cross-window SDS+ rules, no hybrid mode",
    "WINDOW blocks and the static part are basic graph patterns; SELECT *",
    "hash-map iteration order is unobservable after sorting the solutions of one call",
]


def known_witness(ctx, binpath):
    """replay the listed witness of every open finding; still failing -> KNOWN-FINDING line"""
    for kf in ctx.known_findings():
        w = kf.get("witness", {})
        case = w.get("case")
        if not case:
            continue
        rep = evaluate(ctx, binpath, [case], "known_witness_" + kf["id"], 2, witness_ids=(0,))
        if 0 in rep:
            k, row = rep[0]
            ctx.known(kf["id"], "two windows over two streams with the same predicate: at call %d the engine emitted the solution %s whose "
                      "part for one WINDOW block is not an answer over any content that window reported (it binds the other stream's item: "
                      "every window plan runs on the one shared store)" % (k, row))


def finish(ctx):
    ctx.finish(level="proof", rule=PROP_RULE, trusted_base=TRUSTED, assumptions=ASSUMPTIONS,
               extra={"partial": ["the coordinator thread, wall-clock timeouts and the real interleaving of worker threads are outside the "
                                  "model; C11_own_window_mt covers every interleaving of the transition-system model only"]})


def run(ctx):
    ctx.coq("Rsp11", "C11.v")
    binpath = ctx.harness("c11")
    nseeds = 16 if ctx.thorough else 3
    known_witness(ctx, binpath)
    corpus = load_corpus()
    if corpus:
        evaluate(ctx, binpath, corpus, "corpus", nseeds)
    n = 4000 if ctx.thorough else 500
    rnd = [gen_case(ctx.rng) for _ in range(n)]
    ctx.sample(rnd[0])
    evaluate(ctx, binpath, rnd, "random", nseeds)
    m = 1200 if ctx.thorough else 150
    evaluate(ctx, binpath, [gen_routing_case(ctx.rng) for _ in range(m)], "routing_namespaces", nseeds)
    evaluate(ctx, binpath, [gen_pairing_case(ctx.rng) for _ in range(m)], "block_pairing", nseeds)
    evaluate(ctx, binpath, [gen_litjoin_case(ctx.rng) for _ in range(m)], "literal_joins", nseeds)
    lng = [gen_case(ctx.rng, nmax=60) for _ in range(n // 8)]
    for i, c in enumerate(lng):          # every second long case: the coordinator lags behind until everything was pushed
        c["hold_coord"] = i % 2 == 0
    evaluate(ctx, binpath, lng, "random_long", nseeds)
    finish(ctx)


def replay(ctx):
    binpath = ctx.harness("c11")
    c = ctx.replay.get("case")
    if not c or "evs" not in c:
        b = (ctx.replay.get("broken") or [{}])[0].get("case") or {}
        c = b.get("case", b)
    if not c or "evs" not in c:
        ctx.coq("Rsp11", "C11.v")
        finish(ctx)
    evaluate(ctx, binpath, [c], "replay", 16 if ctx.thorough else 3)
    finish(ctx)
