"""C06 - probabilities attached to derived facts equal their possible-worlds probability (DESIGN.md section 7, C06).

Theorems: coq/Prov/C06.v.  Correspondence: the real Reasoner::infer_new_facts_with_provenance under the four
provenance modes of the property (DNF model counting, SDD model counting, min-max, Boolean) against the Gallina
model of the provenance semi-naive materialisation (`KV.Prov.Run.run_*`) on the same programs, and against the
Spec: brute-force enumeration of all 2^n worlds (subsets of the uncertain inputs), evaluated here bit-sliced over
exact integers (`Oracle`) and, on a sample of every stream, by the Coq Spec itself (`KV.Prov.Spec.spec_prob`).
A function-level stream compares DnfWmcProvenance's disjunction / conjunction / negate / recover_probability
with the model's Dnf.v / Wmc.v and with truth tables.
"""
import itertools
import json
import os
from fractions import Fraction

import vf

SUB = "Prov"
REQ = ["KV.Prov.Model", "KV.Prov.Instances", "KV.Prov.Spec", "KV.Prov.Run", "KV.Prov.Negation", "KV.Prov.RunNeg"]
PRE = "Require Import QArith. Open Scope N_scope."
MODES = ["dnf", "sdd", "minmax", "bool"]
TOL = 1e-9
FINDING_ZERO = "C06-zero-probability-boolean"

PROP_RULE = ("a case is one Datalog program (dictionary, certain input facts, uncertain input facts with probabilities "
             "from {0, 1, k/8}, positive rules with 1-3 premises, recursion included) run by the real Reasoner under "
             "DNF, SDD, min-max and Boolean provenance, each on a fresh store; exhaustive scope: every graph on 3 nodes "
             "with at most 3 (quick) / 4 (thorough) of the 6 directed edges, each present edge certain, p=1/2, p=1/4 or "
             "p=0, under transitive closure into a second predicate and under symmetric+transitive closure in place (thorough: "
             "both programs on every graph; quick: the two programs alternate over the graphs); "
             "random scope: transitive closure (linear, non-linear), mutual recursion, in-place symmetric/transitive "
             "closure, diamond and 3-premise rules, and random safe rules with constants, repeated variables, variable "
             "predicates and two conclusions, over 3-6 nodes with up to 8 (quick) / 12 (thorough) uncertain inputs; negation "
             "scope: such a program plus one or two rules with negated atoms whose conclusions use a fresh predicate (exact "
             "modes against the Spec, min-max / Boolean against the model only). "
             "A case is non-trivial when some derived fact has a probability strictly between 0 and 1 whose DNF tag has "
             "at least two clauses or a clause with at least two literals (both semiring operations were needed); "
             "distinct by the rendered program, facts and probabilities. The dnfops stream counts a case as "
             "non-trivial when both operands have at least two clauses.")


# ---- rendering for Coq ---------------------------------------------------------------------------
def c_term(t):
    return ("V %d" if t[0] == "v" else "C %d") % t[1]


def c_atom(a):
    return "(%s, %s, %s)" % tuple(c_term(t) for t in a)


def c_rule(r):
    return "Rule [%s] [%s]" % ("; ".join(c_atom(a) for a in r["prem"]), "; ".join(c_atom(a) for a in r["concl"]))


def c_nrule(r):
    return "NRule (%s) [%s]" % (c_rule(r), "; ".join(c_atom(a) for a in r["neg"]))


def pos_rules(case):
    return [r for r in case["rules"] if not r.get("neg")]


def naf_rules(case):
    return [r for r in case["rules"] if r.get("neg")]


def c_fact(f):
    return "(%d, %d, %d)" % tuple(f[:3])


def c_q(num, den):
    return "(%d # %d)%%Q" % (num, den)


def all_input_facts(case):
    return sorted(set(tuple(f) for f in case["facts"]) | set(tuple(s[:3]) for s in case["seeds"]))


def c_args(case, fuel, with_naf=True):
    rules = "[%s]" % "; ".join(c_rule(r) for r in pos_rules(case))
    if with_naf:
        rules += " [%s]" % "; ".join(c_nrule(r) for r in naf_rules(case))
    facts = "[%s]" % "; ".join(c_fact(f) for f in all_input_facts(case))
    seeds = "[%s]" % "; ".join("(%s, %s)" % (c_fact(s), c_q(s[3], s[4])) for s in case["seeds"])
    return "%d%%nat %s %s %s" % (fuel, rules, facts, seeds)


def fuel_for(case):
    return 400


# ---- the Spec oracle: all 2^n worlds at once (bit W of a mask = world W) ------------------------------
def match_atom(atom, fact, b):
    b2 = None
    for t, v in zip(atom, fact):
        if t[0] == "c":
            if t[1] != v:
                return None
        else:
            cur = (b2 if b2 is not None else b).get(t[1])
            if cur is None:
                if b2 is None:
                    b2 = dict(b)
                b2[t[1]] = v
            elif cur != v:
                return None
    return b2 if b2 is not None else b


def subst(atom, b):
    return tuple(t[1] if t[0] == "c" else b[t[1]] for t in atom)


def instances(rules, facts, with_neg=False):
    """All ground instances (premise facts, conclusion facts[, negated atoms]) of the rules whose premises are among `facts`."""
    out = []
    fl = list(facts)
    for r in rules:
        bs = [{}]
        for a in r["prem"]:
            nb = []
            for b in bs:
                for f in fl:
                    b2 = match_atom(a, f, b)
                    if b2 is not None:
                        nb.append(b2)
            bs = nb
            if not bs:
                break
        for b in bs:
            inst = (tuple(subst(a, b) for a in r["prem"]), tuple(subst(a, b) for a in r["concl"]))
            if with_neg:
                inst = inst + (tuple(subst(a, b) for a in r.get("neg", [])),)
            out.append(inst)
    return out


def least_model(rules, facts):
    cur = set(facts)
    while True:
        new = set()
        for ms, cs in instances(rules, cur):
            for c in cs:
                if c not in cur:
                    new.add(c)
        if not new:
            return cur
        cur |= new


class Oracle:
    """Possible-worlds semantics of one case, by definition: for every world W (subset of the uncertain inputs,
    seeds numbered in sorted order) the least model of the rules over the certain inputs plus the seeds in W."""

    def __init__(self, case):
        self.inputs = all_input_facts(case)
        seeds = sorted((tuple(s[:3]), Fraction(s[3], s[4])) for s in case["seeds"])
        self.seed_order = [s[0] for s in seeds]
        self.probs = [min(max(s[1], Fraction(0)), Fraction(1)) for s in seeds]
        self.n = n = len(seeds)
        rules = pos_rules(case)
        self.naf = naf_rules(case)
        self.top = least_model(rules, self.inputs)
        insts = instances(rules, self.top)
        full = (1 << (1 << n)) - 1
        lit = []
        for i in range(n):
            # worlds in which seed i is present
            block = ((1 << (1 << i)) - 1) << (1 << i)
            m, width = 0, 1 << (i + 1)
            for k in range(0, 1 << n, width):
                m |= block << k
            lit.append(m)
        self.lit, self.full = lit, full
        tt = {f: 0 for f in self.top}
        sidx = {f: i for i, f in enumerate(self.seed_order)}
        for f in self.inputs:
            tt[f] = lit[sidx[f]] if f in sidx else full
        changed = True
        while changed:
            changed = False
            for ms, cs in insts:
                v = full
                for m in ms:
                    v &= tt[m]
                    if not v:
                        break
                if v:
                    for c in cs:
                        if tt[c] | v != tt[c]:
                            tt[c] |= v
                            changed = True
        # rules with negation: one application over the positive closure of every world; a new fact is reported
        # when it holds in at least one world
        self.naf_facts = set()
        if self.naf:
            ntt = {}
            for ms, cs, ns in instances(self.naf, self.top, with_neg=True):
                v = full
                for m in ms:
                    v &= tt[m]
                for a in ns:
                    v &= full & ~tt.get(a, 0)
                if v:
                    for c in cs:
                        ntt[c] = ntt.get(c, 0) | v
            for c, v in ntt.items():
                assert c not in tt, "generated program outside the stratified class"
                tt[c] = v
                self.naf_facts.add(c)
        self.stored = set(self.top) | self.naf_facts
        self.tt = tt
        # integer world weights over the common denominator
        self.den = 1
        for p in self.probs:
            self.den *= p.denominator
        w = [1]
        for i, p in enumerate(self.probs):
            a, b = p.numerator, p.denominator - p.numerator
            w = [x * b for x in w] + [x * a for x in w]      # bit i clear: first half, set: second half
        self.w = w
        self.prob = {}
        for f, m in tt.items():
            s, W = 0, 0
            while m:
                if m & 1:
                    s += w[W]
                m >>= 1
                W += 1
            self.prob[f] = Fraction(s, self.den)
        # min-max: best derivation's weakest input = the largest threshold t with f derivable from inputs of probability >= t
        pr = {f: (self.probs[sidx[f]] if f in sidx else Fraction(1)) for f in self.inputs}
        self.minmax = {f: Fraction(0) for f in self.top}
        for t in sorted(set(pr.values()) | {Fraction(1)}, reverse=True):
            if t <= 0:
                break
            for f in least_model(rules, [f for f in self.inputs if pr[f] >= t]):
                if self.minmax[f] < t:
                    self.minmax[f] = t
        self.has_zero = any(p == 0 for p in self.probs)
        self.positive = least_model(rules, [f for f in self.inputs if pr[f] > 0])

    def eval_models(self, models, perm=None):
        """Truth table (mask over worlds) of an SDD handle given as the manager's list of partial assignments
        (perm renames the implementation's variable ids to positions in the sorted seed order)."""
        m = 0
        for cl in models:
            x = self.full
            for var, pol in cl:
                if perm is not None and var < len(perm):
                    var = perm[var]
                if var >= self.n:
                    x = 0 if pol else x       # a variable that is no seed is false in every world
                    continue
                x &= self.lit[var] if pol else (self.full & ~self.lit[var])
            m |= x
        return m


# ---- canonical forms ------------------------------------------------------------------------------
def canon_impl(r):
    if r is None or "all" not in r:
        return None
    out = {"all": [tuple(f) for f in r["all"]], "new": [tuple(f) for f in r["new"]],
           "explicit": [tuple(f) for f in r["explicit"]],
           "seed_order": [tuple(f) for f in r["seed_order"]],
           "prob": {tuple(p[:3]): p[3] for p in r["probs"]},
           "tag": {tuple(p[:3]): t for p, t in zip(r["probs"], r["tags"])}}
    return out


def clause_masks(cl, perm=None):
    pos = neg = 0
    for v, pol in cl:
        if perm is not None:
            v = perm[v]
        if pol:
            pos |= 1 << v
        else:
            neg |= 1 << v
    return (pos, neg)


def canon_model(v):
    """Coq `Some (all, explicit, [(s,p,o,(num,den),tag)..])` -> dict, None when the model ran out of fuel."""
    if v is None:
        return None
    assert v[0] == "Some", v
    allf, explicit, rows = v[1]
    out = {"all": sorted(tuple(f) for f in allf), "explicit": sorted(tuple(f) for f in explicit), "prob": {}, "tag": {}}
    for row in rows:
        f = tuple(row[:3])
        out["prob"][f] = Fraction(row[3][0], row[3][1])
        out["tag"][f] = sorted(tuple(c) for c in row[4])
    return out


def close(x, q):
    return abs(x - float(q)) <= TOL


# ---- generators ------------------------------------------------------------------------------------
ENTS = ["a", "b", "c", "d", "e", "f"]
PREDS = ["p", "q", "r", "s"]
DICT = ENTS + PREDS
P0, P1, P2, P3 = 6, 7, 8, 9


def v(n):
    return ["v", n]


def k(c):
    return ["c", c]


def rule(prem, concl):
    return {"prem": prem, "neg": [], "concl": concl}


def tc_rules(e, t, variant):
    base = rule([[v(0), k(e), v(1)]], [[v(0), k(t), v(1)]])
    if variant == "right":
        rec = rule([[v(0), k(t), v(1)], [v(1), k(e), v(2)]], [[v(0), k(t), v(2)]])
    elif variant == "left":
        rec = rule([[v(0), k(e), v(1)], [v(1), k(t), v(2)]], [[v(0), k(t), v(2)]])
    else:
        rec = rule([[v(0), k(t), v(1)], [v(1), k(t), v(2)]], [[v(0), k(t), v(2)]])
    return [base, rec]


def sym_trans_rules(e):
    return [rule([[v(0), k(e), v(1)]], [[v(1), k(e), v(0)]]),
            rule([[v(0), k(e), v(1)], [v(1), k(e), v(2)]], [[v(0), k(e), v(2)]])]


def draw_prob(rng, allow_zero=True):
    r = rng.random()
    if allow_zero and r < 0.04:
        return (0, 1)
    if r < 0.10:
        return (1, 1)
    kk = rng.randint(1, 7)
    f = Fraction(kk, 8)
    return (f.numerator, f.denominator)


def split_uncertain(rng, triples, nunc, allow_zero=True):
    triples = list(dict.fromkeys(tuple(t) for t in triples))
    rng.shuffle(triples)
    nunc = min(nunc, len(triples))
    seeds = [list(t) + list(draw_prob(rng, allow_zero)) for t in triples[:nunc]]
    facts = [list(t) for t in triples[nunc:]]
    return facts, seeds


def random_edges(rng, nn, ne, pred, loops=False):
    es = set()
    tries = 0
    while len(es) < ne and tries < 200:
        tries += 1
        a, b = rng.randrange(nn), rng.randrange(nn)
        if a == b and not loops:
            continue
        es.add((a, pred, b))
    return sorted(es)


def random_safe_rule(rng, nn):
    np_ = rng.choice([1, 2, 2, 3])
    nvars = rng.randint(1, 3)

    def so_term():
        return v(rng.randrange(nvars)) if rng.random() < 0.8 else k(rng.randrange(nn))

    def pred_term(allow_var):
        if allow_var and rng.random() < 0.1:
            return v(3)
        return k(rng.choice([P0, P0, P1, P2]))

    prem = [[so_term(), pred_term(True), so_term()] for _ in range(np_)]
    pv = [t[1] for a in prem for t in a if t[0] == "v"]

    def ct():
        if pv and rng.random() < 0.85:
            return v(rng.choice([x for x in pv if x != 3] or pv))
        return k(rng.randrange(nn))

    def cpred():
        if 3 in pv and rng.random() < 0.3:
            return v(3)
        return k(rng.choice([P0, P1, P1, P2]))

    concl = [[ct(), cpred(), ct()] for _ in range(rng.choice([1, 1, 1, 2]))]
    return rule(prem, concl)


def gen_case(rng, maxunc, family=None, minunc=2):
    family = family or rng.choice(["tc", "tc", "tcnl", "mutual", "symtrans", "diamond", "tri", "random", "random"])
    nunc = rng.randint(min(minunc, maxunc), maxunc)
    nn = rng.randint(3 if nunc <= 6 else 4, 5)
    if family in ("tc", "tcnl"):
        ne = rng.randint(max(3, min(nunc - 1, nn * (nn - 1))), min(nn * (nn - 1), max(4, nunc + 2)))
        edges = random_edges(rng, nn, ne, P0, loops=rng.random() < 0.2)
        variant = "nonlinear" if family == "tcnl" else rng.choice(["left", "right"])
        rules = tc_rules(P0, P1, variant)
        if rng.random() < 0.3:   # a second use of the closure: correlated conjunction of two paths
            rules.append(rule([[v(0), k(P1), v(1)], [v(1), k(P1), v(0)]], [[v(0), k(P2), v(1)]]))
        triples = edges
    elif family == "mutual":
        edges = random_edges(rng, nn, rng.randint(max(3, min(nunc - 1, nn * (nn - 1))), min(nn * (nn - 1), nunc + 2)), P0)
        rules = [rule([[v(0), k(P0), v(1)]], [[v(0), k(P1), v(1)]]),
                 rule([[v(0), k(P1), v(1)], [v(1), k(P0), v(2)]], [[v(0), k(P2), v(2)]]),
                 rule([[v(0), k(P2), v(1)], [v(1), k(P0), v(2)]], [[v(0), k(P1), v(2)]])]
        triples = edges
    elif family == "symtrans":
        nn = rng.randint(3, 4)
        edges = random_edges(rng, nn, rng.randint(2, min(5, nunc + 1)), P0)
        rules = sym_trans_rules(P0)
        rng.shuffle(rules)
        triples = edges
    elif family == "diamond":
        # shared evidence: several rules deriving the same fact from overlapping inputs
        triples = random_edges(rng, nn, rng.randint(3, 6), P0) + random_edges(rng, nn, rng.randint(1, 4), P1)
        rules = [rule([[v(0), k(P0), v(1)], [v(0), k(P1), v(2)]], [[v(0), k(P2), k(0)]]),
                 rule([[v(0), k(P0), v(1)], [v(1), k(P0), v(2)]], [[v(0), k(P2), k(0)]]),
                 rule([[v(0), k(P2), v(1)], [v(0), k(P0), v(2)]], [[v(2), k(P3), v(0)], [v(0), k(P2), v(2)]])]
    elif family == "tri":
        triples = random_edges(rng, nn, rng.randint(4, 8), P0, loops=True) + random_edges(rng, nn, rng.randint(1, 3), P1)
        rules = [rule([[v(0), k(P0), v(1)], [v(1), k(P0), v(2)], [v(2), k(P0), v(0)]], [[v(0), k(P2), v(2)]]),
                 rule([[v(0), k(P2), v(1)], [v(1), k(P1), v(2)], [v(0), k(P0), v(0)]], [[v(0), k(P0), v(2)]])]
    else:
        triples = (random_edges(rng, nn, rng.randint(2, 6), P0, loops=True) + random_edges(rng, nn, rng.randint(0, 3), P1, loops=True)
                   + random_edges(rng, nn, rng.randint(0, 2), P2))
        rules = [random_safe_rule(rng, nn) for _ in range(rng.randint(1, 3))]
    facts, seeds = split_uncertain(rng, triples, nunc)
    rng.shuffle(rules)
    return {"dict": DICT, "facts": facts, "seeds": seeds, "rules": rules, "family": family}


def naf_rule(prem, neg, concl):
    return {"prem": prem, "neg": neg, "concl": concl}


def gen_naf_case(rng, maxunc):
    """A positive program over p, q, r plus one or two rules with negation whose conclusions use the fresh predicate s
    (so that the single negative pass is sufficient: the class of KV.Prov.NegProofs / C05's known_C05_neg)."""
    while True:
        c = gen_case(rng, maxunc, rng.choice(["tc", "tc", "tcnl", "mutual", "symtrans", "tri", "random"]))
        if not any(a[1][0] == "v" for r in c["rules"] for a in r["prem"]):   # no variable predicate could match an s-fact
            break
    nn = 4
    extra = []
    for _ in range(rng.choice([1, 1, 2])):
        kind = rng.random()
        if kind < 0.3:
            extra.append(naf_rule([[v(0), k(P0), v(1)]], [[v(1), k(rng.choice([P0, P1])), v(0)]], [[v(0), k(P3), v(1)]]))
        elif kind < 0.5:
            extra.append(naf_rule([[v(0), k(P1), v(1)], [v(1), k(P0), v(2)]], [[v(0), k(P1), v(2)], [v(2), k(P0), v(0)]][:rng.choice([1, 2])],
                                  [[v(0), k(P3), v(2)]]))
        elif kind < 0.6:
            a, b = rng.randrange(nn), rng.randrange(nn)
            extra.append(naf_rule([], [[k(a), k(rng.choice([P0, P1])), k(b)]], [[k(a), k(P3), k(b)]]))
        else:
            np_ = rng.choice([1, 2])
            nvars = rng.randint(1, 3)
            prem = [[v(rng.randrange(nvars)), k(rng.choice([P0, P0, P1])), v(rng.randrange(nvars))] for _ in range(np_)]
            pv = sorted(set(t[1] for a in prem for t in a if t[0] == "v"))

            def nt():
                return v(rng.choice(pv)) if rng.random() < 0.85 else k(rng.randrange(nn))
            neg = [[nt(), k(rng.choice([P0, P1, P1, P2])), nt()] for _ in range(rng.choice([1, 1, 2]))]
            extra.append(naf_rule(prem, neg, [[nt(), k(P3), nt()]]))
    rules = c["rules"] + extra
    rng.shuffle(rules)
    return dict(c, rules=rules, family="naf-" + c["family"])


def rng_family(rng):
    return rng.choice(["tc", "tc", "tcnl", "mutual"])


def exhaustive_cases(thorough):
    nodes = [0, 1, 2]
    edges = [(a, b) for a in nodes for b in nodes if a != b]
    statuses = [("c", None), ("u", (1, 2)), ("u", (1, 4)), ("u", (0, 1))]
    maxe = 4 if thorough else 3
    out = []
    ngraph = 0
    for ne in range(0, maxe + 1):
        for sub in itertools.combinations(edges, ne):
            for st in itertools.product(statuses, repeat=ne):
                facts = [[a, P0, b] for (a, b), s in zip(sub, st) if s[0] == "c"]
                seeds = [[a, P0, b, s[1][0], s[1][1]] for (a, b), s in zip(sub, st) if s[0] == "u"]
                tc = {"dict": DICT, "facts": facts, "seeds": seeds, "rules": tc_rules(P0, P1, "right"), "family": "ex-tc"}
                sy = {"dict": DICT, "facts": facts, "seeds": seeds, "rules": sym_trans_rules(P0), "family": "ex-symtrans"}
                if thorough:
                    out += [tc, sy]
                else:           # quick tier: every graph once, the two programs alternating
                    out.append(tc if ngraph % 2 == 0 else sy)
                ngraph += 1
    return out, ("every graph on 3 nodes with <= %d of the 6 directed edges, each present edge certain / p=1/2 / p=1/4 / p=0, %s "
                 "{transitive closure into a second predicate, symmetric+transitive closure in place}" % (maxe, "x" if thorough else "alternating between"))


def random_formula(rng, nv, neg):
    ncl = rng.choice([0, 1, 1, 2, 2, 3, 4])
    cls = set()
    for _ in range(ncl):
        size = rng.choice([0, 1, 1, 2, 2, 3]) if rng.random() < 0.9 else 0
        vs = rng.sample(range(nv), min(size, nv))
        cls.add(tuple(sorted((x, (rng.random() < 0.6) if neg else True) for x in vs)))
    return [[[x, p] for x, p in c] for c in sorted(cls)]


def gen_dnfops(rng):
    nv = rng.randint(1, 5)
    neg = rng.random() < 0.6
    table = []
    for _ in range(nv):
        p = draw_prob(rng)
        table.append([p[0], p[1]])
    return {"kind": "dnfops", "table": table, "a": random_formula(rng, nv, neg), "b": random_formula(rng, nv, neg)}


# ---- known findings ---------------------------------------------------------------------------------
def is_known(ctx, fid):
    return any(kf["id"] == fid for kf in ctx.known_findings())


def known_zero(case):
    """Class of C06-zero-probability-boolean (Coq: KV.Prov.Spec.has_zero_seed): some input fact carries probability 0."""
    return any(s[3] == 0 for s in case["seeds"])


# ---- evaluation -------------------------------------------------------------------------------------
def evaluate_programs(ctx, binpath, cases, stream, coq_spec_sample=0):
    impl = ctx.run_impl(binpath, [dict(c, modes=MODES) for c in cases])
    exprs = []
    for c in cases:
        a = c_args(c, fuel_for(c))
        exprs.append("(run_dnf_neg %s, run_tt_neg %s, run_minmax_neg %s, run_bool_neg %s, seed_order %s)" % (
            a, a, a, a, "[%s]" % "; ".join("(%s, %s)" % (c_fact(s), c_q(s[3], s[4])) for s in c["seeds"])))
    # small shards and a generous timeout: a 12-input case costs several seconds of vm_compute (truth-table instance)
    model = ctx.run_model(SUB, REQ, exprs, preamble=PRE, chunk=max(1, min(40, (len(exprs) + vf.NPROC - 1) // vf.NPROC)), timeout=3000)
    st = dict(cases=len(cases), seeds=0, zero_probability_cases=0, derived_facts=0, recursive_cycle_facts=0,
              multi_clause_tags=0, correlated_tags=0, max_clauses=0, impl_model_mismatches=0, spec_violations=0,
              in_known_zero=0, known_zero_reproduced=0, facts_checked=0, negation_cases=0, facts_from_negation=0)
    oracles = []
    for c, im, mo in zip(cases, impl, model):
        ctx.count()
        if isinstance(mo, tuple) and mo and mo[0] == "ERROR":
            ctx.broken("correspondence", stream, "model evaluation failed: %s" % (mo[1],), c)
            oracles.append(None)
            continue
        orc = Oracle(c)
        oracles.append(orc)
        m = {"dnf": canon_model(mo[0]), "sdd": canon_model(mo[1]), "minmax": canon_model(mo[2]), "bool": canon_model(mo[3])}
        mseed = [tuple(f) for f in mo[4]]
        if any(x is None for x in m.values()):
            ctx.broken("correspondence", stream, "model ran out of fuel", c)
            continue
        if mseed != orc.seed_order:
            ctx.broken("correspondence", stream, "model seed numbering differs from sorted order", c)
            continue
        naf = bool(orc.naf)
        top = sorted(orc.stored)      # = orc.top for a positive program
        inputs = set(orc.inputs)
        st["negation_cases"] += naf
        st["facts_from_negation"] += len(orc.naf_facts)
        st["seeds"] += orc.n
        st["zero_probability_cases"] += orc.has_zero
        st["derived_facts"] += len(top) - len(inputs)
        if im is None or im.get("driver_died"):
            ctx.violation(c, {"what": "driver died on the program", "impl": im})
            st["spec_violations"] += 1
            continue
        kz = known_zero(c)
        nontriv = False
        for mode in MODES:
            i = canon_impl(im.get(mode))
            if i is None:
                ctx.violation({"case": c, "mode": mode}, {"what": "implementation panicked or rejected a safe positive program", "impl": im.get(mode)})
                st["spec_violations"] += 1
                continue
            mm = m[mode]
            # ---------- implementation against the Spec (world enumeration) ----------
            bad = None
            # variable ids are an internal numbering: any numbering that lists every seed triple once is acceptable;
            # tags are compared after renaming impl variable v to the position of seed_order[v] in the sorted order
            perm = None
            if sorted(i["seed_order"]) != orc.seed_order:
                bad = {"what": "seed numbering does not enumerate every seed triple exactly once", "impl": i["seed_order"], "spec": orc.seed_order}
            else:
                perm = [orc.seed_order.index(t) for t in i["seed_order"]]
            if bad is not None:
                pass
            elif len(i["new"]) != len(set(i["new"])):
                bad = {"what": "returned new facts contain duplicates", "impl": i["new"]}
            elif mode in ("dnf", "sdd"):
                if i["all"] != top:
                    bad = {"what": "%s mode: stored facts differ from the facts derivable from the inputs" % mode,
                           "missing": [f for f in top if f not in i["all"]][:8], "unsound": [f for f in i["all"] if f not in orc.stored][:8]}
                elif sorted(i["new"]) != [f for f in top if f not in inputs]:
                    bad = {"what": "%s mode: returned new facts differ from the derived facts" % mode}
                else:
                    for f in top:
                        st["facts_checked"] += 1
                        if not close(i["prob"][f], orc.prob[f]):
                            bad = {"what": "%s mode: reported probability differs from the total weight of the worlds in which the fact is derivable" % mode,
                                   "fact": f, "impl": i["prob"][f], "spec": str(orc.prob[f]), "spec_float": float(orc.prob[f])}
                            break
                    if bad is None and mode == "sdd":
                        for f in top:
                            if orc.eval_models(i["tag"][f], perm) != orc.tt[f]:
                                bad = {"what": "sdd mode: the tag's Boolean function differs from derivability in some world", "fact": f}
                                break
            elif naf:
                pass    # the property says nothing about negation in min-max / Boolean mode: only the model comparison below
            elif mode == "minmax":
                # a fact whose best derivation's weakest input is 0 may be absent (no value is reported for it)
                for f in i["all"]:
                    st["facts_checked"] += 1
                    if f not in orc.top:
                        bad = {"what": "minmax mode: a stored fact is not derivable", "fact": f}
                        break
                    if not close(i["prob"][f], orc.minmax[f]):
                        bad = {"what": "minmax mode: reported value is not the best derivation's weakest input", "fact": f,
                               "impl": i["prob"][f], "spec": str(orc.minmax[f])}
                        break
                if bad is None:
                    miss = [f for f in top if f not in i["all"] and orc.minmax[f] > 0]
                    if miss:
                        bad = {"what": "minmax mode: a fact with a derivation of positive strength is missing", "missing": miss[:8]}
            else:
                want = {f: 1.0 for f in top}
                got = {f: i["prob"][f] for f in i["all"]}
                if got != want:
                    if kz and is_known(ctx, FINDING_ZERO):
                        st["in_known_zero"] += 1
                        # inside the class the strongest true statement (C06_boolean) still has to hold
                        want2 = {f: (1.0 if f in orc.positive else 0.0) for f in sorted(orc.positive | inputs)}
                        if got != want2:
                            bad = {"what": "bool mode (probability-0 input present): stored facts are not the inputs plus the facts derivable from inputs of positive probability"}
                        else:
                            st["known_zero_reproduced"] += 1
                    else:
                        bad = {"what": "bool mode: reported facts differ from plain derivability",
                               "missing": [f for f in top if f not in got][:8], "not_true": [f for f in got if got[f] != 1.0][:8],
                               "unsound": [f for f in got if f not in orc.top][:8]}
            if bad is not None:
                ctx.violation({"case": c, "mode": mode}, bad)
                st["spec_violations"] += 1
                continue
            # ---------- implementation against the model ----------
            diff = None
            if i["all"] != mm["all"]:
                diff = "stored facts"
            else:
                for f in i["all"]:
                    if not close(i["prob"][f], mm["prob"][f]):
                        diff = "probability of %s: impl %r model %s" % (f, i["prob"][f], mm["prob"][f])
                        break
                    if mode == "dnf" and sorted(clause_masks(cl, perm) for cl in i["tag"][f]) != mm["tag"][f]:
                        diff = "DNF tag of %s" % (f,)
                        break
                    if mode == "bool" and [(1 if i["tag"][f] else 0, 0)] != mm["tag"][f]:
                        diff = "Boolean tag of %s" % (f,)
                        break
            if diff is not None:
                st["impl_model_mismatches"] += 1
                ctx.broken("correspondence", stream, "mode '%s': implementation and model differ on %s (the Spec oracle accepts the implementation)" % (mode, diff),
                           {"case": c, "mode": mode})
            if mode == "dnf":
                for f in top:
                    t = i["tag"][f]
                    st["max_clauses"] = max(st["max_clauses"], len(t))
                    if len(t) >= 2:
                        st["multi_clause_tags"] += 1
                        vs = [set(x for x, _ in cl) for cl in t]
                        if any(vs[a] & vs[b] for a in range(len(vs)) for b in range(a + 1, len(vs))):
                            st["correlated_tags"] += 1
                    if f not in inputs and f[0] == f[2]:
                        st["recursive_cycle_facts"] += 1
                    if f not in inputs and 0 < orc.prob[f] < 1 and (len(t) >= 2 or any(len(cl) >= 2 for cl in t)):
                        nontriv = True
        if nontriv:
            ctx.nontrivial((c["rules"], sorted(map(tuple, c["facts"])), sorted(map(tuple, c["seeds"]))))
    # ---------- the Python oracle against the Coq Spec on a sample ----------
    if coq_spec_sample:
        idx = [j for j, o in enumerate(oracles) if o is not None and o.n <= 6][:coq_spec_sample]
        exprs = []
        for j in idx:
            a = c_args(cases[j], 60)
            fs = "[%s]" % "; ".join(c_fact(f) for f in sorted(oracles[j].top))
            fsn = "[%s]" % "; ".join(c_fact(f) for f in sorted(oracles[j].stored))
            a2 = c_args(cases[j], 60, with_naf=False)
            exprs.append("(spec_probs %s %s, spec_minmaxs %s %s, spec_closure 60%%nat [%s] [%s], spec_probs_neg %s %s)" % (
                a2, fs, a2, fs, "; ".join(c_rule(r) for r in pos_rules(cases[j])), "; ".join(c_fact(f) for f in oracles[j].inputs), a, fsn))
        res = ctx.run_model(SUB, REQ, exprs, preamble=PRE)
        nbad = 0
        for j, r in zip(idx, res):
            o = oracles[j]
            ctx.count()
            if isinstance(r, tuple) and r and r[0] == "ERROR":
                ctx.broken("correspondence", stream + ":coq-spec", "Spec evaluation failed: %s" % (r[1],), cases[j])
                continue
            sp = {tuple(x[:3]): Fraction(x[3][0], x[3][1]) for x in r[0]}
            sm = {tuple(x[:3]): Fraction(x[3][0], x[3][1]) for x in r[1]}
            cl = None if r[2] is None else sorted(tuple(f) for f in r[2][1])
            spn = {tuple(x[:3]): Fraction(x[3][0], x[3][1]) for x in r[3]}
            if ({f: o.prob[f] for f in o.top} != sp or sm != o.minmax or cl != sorted(o.top)
                    or spn != {f: o.prob[f] for f in o.stored}):
                nbad += 1
                ctx.broken("correspondence", stream + ":coq-spec", "the check's world-enumeration oracle and KV.Prov.Spec disagree", cases[j])
        ctx.stream(stream + ":coq-spec", cases=len(idx), disagreements=nbad)
    ctx.stream(stream, **st)
    ctx.log("stream %s: %d programs x 4 modes, %d impl/model mismatches, %d spec violations, %d in known class" % (
        stream, len(cases), st["impl_model_mismatches"], st["spec_violations"], st["in_known_zero"]))


def tt_of_formula(f, nv):
    m = 0
    for W in range(1 << nv):
        for cl in f:
            if all(((W >> x) & 1) == (1 if pol else 0) for x, pol in cl):
                m |= 1 << W
                break
    return m


def evaluate_dnfops(ctx, binpath, cases, stream):
    impl = ctx.run_impl(binpath, cases)

    def cf(f):
        return "[%s]" % "; ".join("(%d, %d)" % clause_masks(cl) for cl in f)
    exprs = ["dnf_ops [%s] %s %s" % ("; ".join(c_q(a, b) for a, b in c["table"]), cf(c["a"]), cf(c["b"])) for c in cases]
    model = ctx.run_model(SUB, REQ, exprs, preamble=PRE)
    mism = viol = 0
    for c, im, mo in zip(cases, impl, model):
        ctx.count()
        if isinstance(mo, tuple) and mo and mo[0] == "ERROR":
            ctx.broken("correspondence", stream, "model evaluation failed: %s" % (mo[1],), c)
            continue
        if im is None or "disj" not in im:
            ctx.violation(c, {"what": "DnfWmcProvenance operation panicked", "impl": im})
            viol += 1
            continue
        nv = len(c["table"])
        ps = [Fraction(a, b) for a, b in c["table"]]
        full = (1 << (1 << nv)) - 1

        def wmc(tt):
            s = Fraction(0)
            for W in range(1 << nv):
                if (tt >> W) & 1:
                    w = Fraction(1)
                    for x in range(nv):
                        w *= ps[x] if (W >> x) & 1 else 1 - ps[x]
                    s += w
            return s
        ta, tb = tt_of_formula(c["a"], nv), tt_of_formula(c["b"], nv)
        want = {"disj": ta | tb, "conj": ta & tb, "neg": full & ~ta}
        bad = None
        for op in ("disj", "conj", "neg"):
            got = tt_of_formula(im[op], nv)
            if got != want[op]:
                bad = {"what": "DnfWmcProvenance::%s does not denote the Boolean operation" % {"disj": "disjunction", "conj": "conjunction", "neg": "negate"}[op],
                       "impl": im[op]}
            elif not close(im["wmc_" + op], wmc(want[op])):
                bad = {"what": "recover_probability of the %s differs from the weighted model count" % op, "impl": im["wmc_" + op], "spec": str(wmc(want[op]))}
        if bad is None and not (close(im["wmc_a"], wmc(ta)) and close(im["wmc_b"], wmc(tb))):
            bad = {"what": "recover_probability differs from the weighted model count", "impl": [im["wmc_a"], im["wmc_b"]], "spec": [str(wmc(ta)), str(wmc(tb))]}
        if bad is not None:
            ctx.violation(c, bad)
            viol += 1
            continue
        md, mc, mn, mw, meq = mo
        same = (sorted(clause_masks(cl) for cl in im["disj"]) == sorted(tuple(x) for x in md)
                and sorted(clause_masks(cl) for cl in im["conj"]) == sorted(tuple(x) for x in mc)
                and sorted(clause_masks(cl) for cl in im["neg"]) == sorted(tuple(x) for x in mn)
                and all(close(im[kk], Fraction(q[0], q[1])) for kk, q in zip(["wmc_a", "wmc_b", "wmc_disj", "wmc_conj", "wmc_neg"], mw))
                and im["eq"] == meq)
        if not same:
            mism += 1
            ctx.broken("correspondence", stream, "DnfWmcProvenance and the model's Dnf.v/Wmc.v differ (the truth-table oracle accepts the implementation)",
                       {"case": c, "impl": im, "model": mo})
        if len(c["a"]) >= 2 and len(c["b"]) >= 2:
            ctx.nontrivial(("dnfops", c["table"], c["a"], c["b"]))
    ctx.stream(stream, cases=len(cases), impl_model_mismatches=mism, spec_violations=viol)
    ctx.log("stream %s: %d operand pairs, %d impl/model mismatches, %d spec violations" % (stream, len(cases), mism, viol))


def load_corpus():
    d = os.path.join(vf.VERIF, "corpus", "C06")
    out = []
    if os.path.isdir(d):
        for fn in sorted(os.listdir(d)):
            if fn.endswith(".json"):
                with open(os.path.join(d, fn)) as f:
                    j = json.load(f)
                out.append({kk: vv for kk, vv in j.items() if not kk.startswith("_")})
    return out


def replay_known(ctx, binpath):
    """Replay the listed witness of every open finding on the implementation; print KNOWN-FINDING if it still fails."""
    for kf in ctx.known_findings():
        w = kf.get("witness")
        if not isinstance(w, dict) or "rules" not in w:
            continue
        case = {"dict": w["dict"], "facts": w["facts"], "seeds": w["seeds"], "rules": w["rules"]}
        im = ctx.run_impl(binpath, [dict(case, modes=["bool", "dnf"])])[0]
        ctx.count()
        orc = Oracle(case)
        b = canon_impl(im.get("bool")) if im else None
        d = canon_impl(im.get("dnf")) if im else None
        top = sorted(orc.top)
        if b is None or d is None:
            ctx.known(kf["id"], "%s: the witness now fails differently: %r" % (kf.get("what", ""), im))
            continue
        missing = [f for f in top if f not in b["all"]]
        if missing or any(b["prob"][f] != 1.0 for f in b["all"]):
            ctx.known(kf["id"], "Boolean provenance does not report plain derivability when an input fact has probability 0: "
                                "on the witness %d of %d derivable facts are missing (e.g. %s) and %d input facts are reported false, "
                                "while DNF mode stores all %d facts" % (
                                    len(missing), len(top), [DICT_NAME(w, x) for x in missing[:1]],
                                    sum(1 for f in b["all"] if b["prob"][f] != 1.0), len(d["all"])))
        else:
            ctx.log("finding %s no longer reproduces on its witness (entry is stale)" % kf["id"])


def DICT_NAME(w, f):
    return " ".join(w["dict"][x] for x in f)


def run(ctx):
    ctx.coq(SUB, "C06.v")
    binpath = ctx.harness("c06")
    corpus = load_corpus()
    progs = [c for c in corpus if c.get("kind", "program") == "program"]
    if progs:
        evaluate_programs(ctx, binpath, progs, "corpus", coq_spec_sample=len(progs))
    ops = [c for c in corpus if c.get("kind") == "dnfops"]
    if ops:
        evaluate_dnfops(ctx, binpath, ops, "corpus-dnfops")
    replay_known(ctx, binpath)
    # function-level stream
    nops = 6000 if ctx.thorough else 600
    dn = [gen_dnfops(ctx.rng) for _ in range(nops)]
    ctx.sample(dn[0])
    evaluate_dnfops(ctx, binpath, dn, "dnfops")
    # exhaustive small scope
    ex, scope = exhaustive_cases(ctx.thorough)
    ctx.sample({kk: vv for kk, vv in ex[len(ex) // 2].items()})
    evaluate_programs(ctx, binpath, ex, "exhaustive", coq_spec_sample=40 if ctx.thorough else 8)
    ctx.coverage["exhaustive"] = True
    ctx.coverage["exhaustive_scope"] = scope
    # random programs
    n = 3000 if ctx.thorough else 256
    maxunc = 12 if ctx.thorough else 8
    # a quarter small (dense in the interesting shapes), a quarter pushed towards the largest number of uncertain inputs
    rnd = [gen_case(ctx.rng, min(maxunc, 5)) if i % 4 == 0 else
           gen_case(ctx.rng, maxunc, rng_family(ctx.rng), minunc=maxunc - 2) if i % 4 == 1 else
           gen_case(ctx.rng, maxunc) for i in range(n)]
    ctx.sample(rnd[0])
    evaluate_programs(ctx, binpath, rnd, "random", coq_spec_sample=100 if ctx.thorough else 16)
    # programs with a negative stratum (exact modes against the Spec; min-max / Boolean against the model only)
    nn_ = 1200 if ctx.thorough else 96
    naf = [gen_naf_case(ctx.rng, min(maxunc, 10)) for _ in range(nn_)]
    ctx.sample(naf[0])
    evaluate_programs(ctx, binpath, naf, "negation", coq_spec_sample=60 if ctx.thorough else 12)
    finish(ctx)


def finish(ctx):
    ctx.finish(
        level="proof", rule=PROP_RULE,
        trusted_base=[
            "Coq 8.16.1 kernel; vm_compute for running the model and the Spec in the correspondence check",
            "hand-written Gallina model coq/Prov/{Syntax,Model,Dnf,Wmc,Instances}.v of datalog/src/reasoning/materialisation/{provenance_semi_naive,provenance_infer_generic}.rs, shared/src/{provenance,tag_store}.rs",
            "the join is abstracted: the model's nested-loop matcher (Syntax.solutions) stands for join_premise_with_hash_join / perform_hash_join_for_rules; that the real join returns the same bindings is property C05's theorem",
            "SddProvenance is not modelled operationally: C06_exact_sdd assumes the SDD manager represents Boolean functions exactly and counts them exactly (property C07's theorems); the check compares SDD-mode probabilities with world enumeration and with the truth-table instance of the model (tt_prov, proved exact: C06_tt_is_exact_bf), and the Boolean function of every handle (its model list) with derivability in every world",
            "f64 arithmetic is modelled by exact rationals; implementation floats are compared with the exact value within 1e-9; MinMax is_saturated (|a-b| < 1e-9) is modelled by equality (generated probabilities are multiples of 1/8)",
            "correspondence check: harness/src/bin/c06.rs (public API only), checks/c06.py generators, canonicalisation and the bit-sliced world-enumeration oracle (cross-checked against KV.Prov.Spec on a sample of every stream)",
            "HashMap/HashSet iteration order and the order in which the join returns bindings are not modelled: the final tags are a least fixpoint and do not depend on them; u32 ids are unbounded N; shannon_wmc's memo table is a cache and is not modelled; seed variable ids are compared up to the renaming given by TagStore::seed_triples",
        ],
        assumptions=["safe rules without filters; rules with negation only in the class where the single negative pass suffices (their conclusions use a predicate that occurs nowhere else); no quoted-triple terms",
                     "every uncertain input fact is added once (add_tagged_triple on distinct triples); at most 12 uncertain inputs in the enumeration",
                     "min-max: a fact whose best derivation has weakest input 0 may be absent from the result (no value is reported for it)"])


def replay(ctx):
    binpath = ctx.harness("c06")
    c = ctx.replay["case"]
    case = c.get("case", c)
    if case.get("kind") == "dnfops":
        evaluate_dnfops(ctx, binpath, [case], "replay")
    else:
        evaluate_programs(ctx, binpath, [{kk: vv for kk, vv in case.items() if kk != "modes"}], "replay", coq_spec_sample=1)
    ctx.finish(level="proof", rule=PROP_RULE)
