#!/usr/bin/env python3
"""Build /verif/seeded/<PROP>-<k>/ from the staging area (patch.diff, demonstration, meta.json).

Only changes that were confirmed independently (tools/confirm_seeded.py: demo passes on the unmodified
tree, fails with the change, existing suite still passes) are kept.  meta.json records which property the
change breaks, what it needs in order to manifest (taken from the author's README), what was run, and
which registered checks catch it.
"""
import json, os, re, shutil, sys

ST = "/verif/.cache/seeded_staging"
OUT = "/verif/seeded"
props = json.loads("{" + ",".join('"%s": %s' % (json.loads(l)["id"], json.dumps(json.loads(l)["title"])) for l in open("/verif/properties.jsonl")) + "}")


def needs_text(readme):
    paras = re.split(r"\n\s*\n", readme)
    hits = [p.strip() for p in paras if re.search(r"manifest|needs|trigger|when it bites|only when|requires", p, re.I)]
    txt = "\n\n".join(hits[:3]) if hits else readme[:900]
    return txt[:1800]


summary = []
for prop0 in sorted(os.listdir(ST)):
    for k in sorted(os.listdir(os.path.join(ST, prop0))):
        prop = prop0
        d = os.path.join(ST, prop, k)
        if not os.path.isdir(d) or not os.path.exists(os.path.join(d, "patch.diff")):
            continue
        conf = json.load(open(os.path.join(d, "confirm.json"))) if os.path.exists(os.path.join(d, "confirm.json")) else None
        res = json.load(open(os.path.join(d, "result.json"))) if os.path.exists(os.path.join(d, "result.json")) else None
        sid = "%s-%s" % (prop, k)
        name = prop
        prop = prop[:3]
        if not conf or not conf.get("confirmed"):
            summary.append((sid, "NOT KEPT (not confirmed)", ""))
            continue
        o = os.path.join(OUT, sid)
        shutil.rmtree(o, ignore_errors=True)
        os.makedirs(o)
        for f in ("patch.diff", "demo_test.rs", "demo.rs", "RUN.md", "README.md", "patch.orig.diff"):
            if os.path.exists(os.path.join(d, f)):
                shutil.copy(os.path.join(d, f), o)
        for f in os.listdir(d):
            if f.startswith("replay_") and os.path.getsize(os.path.join(d, f)) < 200000:
                shutil.copy(os.path.join(d, f), o)
        readme = open(os.path.join(d, "README.md")).read() if os.path.exists(os.path.join(d, "README.md")) else ""
        checks = {}
        caught = []
        if res and res.get("checks"):
            for c, r in res["checks"].items():
                line = r["violation_lines"][0] if r["violation_lines"] else None
                checks[c] = {"cmd": "./check %s --tier quick" % c, "exit": r["exit"], "violation_line": line}
                if r["exit"] == 1 and line:
                    caught.append(c + (" (no-failing-input-found)" if "no-failing-input-found" in line else ""))
        hist = json.load(open(os.path.join(d, "history.json"))) if os.path.exists(os.path.join(d, "history.json")) else None
        meta = {
            "id": sid,
            "property": prop,
            "property_title": props.get(prop),
            "author": "independent sub-agent given only the property text and a scratch worktree of /repo (nothing from /verif)",
            "what_it_needs_to_manifest": needs_text(readme),
            "confirmed_by_lead": {
                "how": "tools/confirm_seeded.py in a scratch worktree of /repo HEAD %s (removed afterwards)" % conf.get("head"),
                "demo": "%s (cargo test -p %s --test %s --offline)" % (conf.get("demo_dest"), conf.get("crate"), conf.get("test")),
                "demo_passes_without_change": conf["demo_unmodified"]["ok"],
                "demo_fails_with_change": conf["demo_patched"]["fails"],
                "existing_suite_with_change": "cargo test --workspace --lib --bins --tests --no-fail-fast --offline: %d passed, failed: %s"
                                              % (conf["suite_patched"]["passed"], conf["suite_patched"]["failed_tests"]),
            },
            "checks_run_against_it": checks,
            "checks_run_where": ("private copy: scratch worktree of /repo HEAD %s + copy of /verif pointing at it (tools/seeded_run_priv.py); /repo itself untouched"
                                 % res.get("head")) if res and res.get("private_copy") else "/repo with the patch applied and reverted afterwards (tools/seeded_run.py)",
            "caught_by": caught,
            "history": hist,
            "how_to_replay": "git -C /repo apply seeded/%s/patch.diff && ./check %s --tier quick ; git -C /repo apply -R seeded/%s/patch.diff" % (sid, prop, sid),
        }
        json.dump(meta, open(os.path.join(o, "meta.json"), "w"), indent=1)
        summary.append((sid, "kept", ", ".join(caught) or "MISSED"))
for s in summary:
    print("%-8s %-28s %s" % s)
