#!/usr/bin/env python3
"""Run registered checks against a seeded property-breaking change.

usage: seeded_run.py <dir with patch.diff> <PROP> [<PROP> ...]
Applies patch.diff to /repo (git apply), runs `./check PROP --tier quick` for each PROP, reverts the patch
(git apply -R) and writes <dir>/result.json.  /repo must not contain conflicting uncommitted changes.
"""
import json, os, subprocess, sys, time

d = os.path.abspath(sys.argv[1])
props = sys.argv[2:]
patch = os.path.join(d, "patch.diff")
V = "/verif"


def sh(cmd, **kw):
    p = subprocess.run(cmd, shell=True, stdout=subprocess.PIPE, stderr=subprocess.STDOUT, **kw)
    return p.returncode, p.stdout.decode("utf-8", "replace")


rc0, st = sh("git -C /repo status --porcelain")
if st.strip():
    print("/repo is not clean, refusing to run:", st)
    sys.exit(4)
rc, out = sh("git -C /repo apply --check '%s'" % patch)
if rc != 0:
    # the patch was written against an older HEAD: try a three-way merge
    rc, out3 = sh("git -C /repo apply --3way '%s'" % patch)
    if rc != 0:
        sh("git -C /repo reset -q --hard HEAD")
        print("patch does not apply:", out, out3)
        json.dump({"applied": False, "error": out + out3}, open(os.path.join(d, "result.json"), "w"), indent=1)
        sys.exit(3)
    sh("git -C /repo reset -q")   # keep the merged change in the working tree only
    # store the rebased patch so that the seeded entry applies to HEAD
    rcx, rebased = sh("git -C /repo diff")
    if not os.path.exists(os.path.join(d, "patch.orig.diff")):
        os.rename(patch, os.path.join(d, "patch.orig.diff"))
    open(patch, "w").write(rebased)
else:
    rc, out = sh("git -C /repo apply '%s'" % patch)
results = {}
try:
    for p in props:
        t = time.time()
        rc, out = sh("./check %s --tier quick" % p, cwd=V, timeout=7200)
        viol = [l for l in out.splitlines() if l.startswith("VIOLATION")]
        results[p] = {"exit": rc, "violation_lines": viol[:5], "wall_s": round(time.time() - t, 1),
                      "tail": out.splitlines()[-6:]}
        if viol:
            # keep a copy of the first replay file next to the patch
            rp = viol[0].split("replay=")[1].split()[0]
            try:
                subprocess.run(["cp", os.path.join(V, rp), os.path.join(d, "replay_%s.json" % p)])
            except Exception:
                pass
        print(p, rc, viol[:1], flush=True)
finally:
    rc2, out2 = sh("git -C /repo checkout -- . && git -C /repo status --porcelain")
    if rc2 != 0 or out2.strip():
        print("REVERT FAILED", out2)
        rc2 = 1
json.dump({"applied": True, "checks": results, "reverted": rc2 == 0}, open(os.path.join(d, "result.json"), "w"), indent=1)
