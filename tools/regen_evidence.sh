#!/bin/sh
# Regenerate every evidence file from a clean-tree quick run with the default seed.
cd /verif
if [ -n "$(git -C /repo status --porcelain)" ]; then echo "/repo is not clean"; exit 1; fi
mkdir -p .cache/regen
for p in C01 C02 C03 C04 C05 C06 C07 C08 C09 C10 C11 C12 C13 C14 C15 C16 C17 C18 C19; do
  ./check $p --tier quick > .cache/regen/$p.log 2>&1; rc=$?
  echo "$p exit=$rc $(grep -c '^VIOLATION' .cache/regen/$p.log) violations $(grep -c '^KNOWN-FINDING' .cache/regen/$p.log) known; $(tail -1 .cache/regen/$p.log | cut -c1-100)"
done
