#!/bin/sh
# usage: r3_process.sh <PROP>   (after the round-3 author agent for PROP has finished)
# harvest /tmp/mut/<PROP>r3/out -> staging; confirm each change independently (scratch worktree, the author's
# cargo target directory is re-used to avoid a cold build); run the PROP check against each in a private copy.
p="$1"; n="${p}r3"
ST=/verif/.cache/seeded_staging/$n
mkdir -p /verif/.cache/seeded_staging; rm -rf $ST; cp -r /tmp/mut/$n/out $ST
find $ST -name "*.log" -size +200k -delete
git -C /repo worktree remove --force /tmp/mut/$n/repo 2>/dev/null
mkdir -p /tmp/confirm/w$n; rm -rf /tmp/confirm/w$n/target; mv /tmp/mut/$n/target /tmp/confirm/w$n/target; rm -rf /tmp/mut/$n
items=""
for k in 1 2 3; do [ -f $ST/$k/patch.diff ] && items="$items $p:$ST/$k"; done
( SR_JOBS=6 python3 /verif/tools/seeded_run_priv.py $n $items > /verif/.cache/r3_run_$n.log 2>&1 ) &
for k in 1 2 3; do [ -f $ST/$k/patch.diff ] && CONFIRM_JOBS=6 python3 /verif/tools/confirm_seeded.py $ST/$k $n >> /verif/.cache/r3_confirm_$n.log 2>&1; done
wait
git -C /repo worktree remove --force /tmp/confirm/w$n/repo 2>/dev/null; rm -rf /tmp/confirm/w$n
echo "== $n"; cat /verif/.cache/r3_confirm_$n.log | tail -3; cat /verif/.cache/r3_run_$n.log | tail -3
