#!/usr/bin/env python3
"""Regenerates MANIFEST.json from the table below (run after adding a check)."""
import json, os
V = os.path.dirname(os.path.dirname(os.path.abspath(__file__)))
ALL = ["C%02d" % i for i in range(1, 20)]
# property -> (level text, level note, technique, design section)
CLAIMED = {}
exec(open(os.path.join(V, "tools", "claims.py")).read())
checks = []
for p in ALL:
    if p in CLAIMED:
        c = CLAIMED[p]
        checks.append({
            "property_id": p,
            "quick_cmd": "./check %s --tier quick" % p,
            "thorough_cmd": "./check %s --tier thorough" % p,
            "evidence_file": "evidence/%s.json" % p,
            "replay_cmd_template": "./check %s --replay {path}" % p,
            "engine": "coq-model+correspondence",
            "level_claimed": {"category": "proof", "text": c["text"], "design_ref": "DESIGN.md section 7, %s" % p},
            "level_note": c["note"],
            "technique": c["technique"],
        })
na = [{"property_id": p, "reason": NOT_YET.get(p, "check not built yet in this development; will be claimed once its Coq model, theorems and correspondence check exist")} for p in ALL if p not in CLAIMED]
m = {
    "version": 1,
    "setup_cmd": "./setup.sh",
    "hooks": {
        "guard": "kolibrie_verif",
        "enable": "RUSTFLAGS=\"--cfg kolibrie_verif\" (set by lib/vf.py when it builds harness/ against /repo)",
        "baseline_off_cmd": "cd /repo && cargo test --workspace --no-fail-fast --offline",
        "source_commits": HOOK_COMMITS,
        "add_only": True,
    },
    "engines": [{
        "name": "coq-model+correspondence", "path": "check",
        "serves_properties": sorted(CLAIMED),
        "kind_free_text": "Coq 8.16.1 theorems about hand-written executable Gallina models (coq/<Subsystem>/), tied to /repo on every run by a differential correspondence check (harness/ Rust drivers vs. the model evaluated by vm_compute)",
    }],
    "checks": checks,
    "notes": "See DESIGN.md. Known findings: known_findings.json. Seeded mutations: seeded/.",
    "not_applicable": na,
}
json.dump(m, open(os.path.join(V, "MANIFEST.json"), "w"), indent=1)
print("claimed:", sorted(CLAIMED))
