#!/usr/bin/env python3
"""Prints the prompt for an independent mutation sub-agent for property <id> (text of the property only)."""
import json, sys
pid = sys.argv[1]
name = sys.argv[2] if len(sys.argv) > 2 else pid
for l in open('/verif/properties.jsonl'):
    p = json.loads(l)
    if p['id'] == pid:
        break
print(f"""You are testing how well a software project's behaviour is pinned down. You work ONLY inside the git worktree /tmp/mut/{name}/repo (a checkout of the Rust project Kolibrie: SPARQL/RDF engine, stream-processing windows, Datalog reasoner). Do not read or write anything under /verif or /repo; do not use the network (none is available). A prebuilt cargo target directory is at /tmp/mut/{name}/target: always build with `CARGO_TARGET_DIR=/tmp/mut/{name}/target CARGO_NET_OFFLINE=true cargo ... --offline` from /tmp/mut/{name}/repo.

The project is supposed to satisfy this property:

  Title: {p['title']}
  Statement: {p['statement']}
  It must hold over: {p['quantifier']['text']}
  (Relevant source files: {', '.join(p['anchors']['files'])})

Your task: write a small change to the project's source (not to its tests) that BREAKS this property while the project still compiles and the existing test suite still passes (`cargo test --workspace --no-fail-fast --offline`; in the unmodified project every test passes except `rsp_ql_dstream_semantics`, which already fails — ignore that one). Give a demonstration: a new test file or small example program that FAILS with your change and PASSES without it.

We want realistic, subtle breakage — the kind of bug a maintainer could introduce by an optimisation, refactoring or "simplification" — that needs something specific to manifest: a particular multi-step sequence of operations, an unusual but legal input, a boundary value, a particular interleaving, or two cooperating sites that each look fine alone. NOT a change that ordinary use would expose at once (e.g. not "always return empty"). Produce up to THREE different such changes (different mechanisms), each independent (each a separate patch against the unmodified worktree).

For each change k = 1, 2, 3 write into /tmp/mut/{name}/out/k/:
  - patch.diff   : `git diff` of the source change only (must apply with `git apply` to the unmodified worktree; do not include the demo in it)
  - demo.rs (or demo_test.rs) plus RUN.md saying exactly where to copy it and the command that runs it (e.g. copy to kolibrie/tests/demo_k.rs and `cargo test -p kolibrie --test demo_k --offline`); it must fail with the patch and pass without
  - README.md   : what the change does, which part of the property it breaks, and exactly what is needed for it to manifest
Verify yourself, for each change: (1) unmodified + demo passes, (2) patched + demo fails, (3) patched + the existing test suite passes (run the whole suite at least once per change; to save time you may run the affected crate's tests first: crates are `shared`, `datalog`, `kolibrie`). Leave the worktree unmodified at the end (`git checkout -- . && git clean -fd` inside /tmp/mut/{name}/repo only). Builds are slow (the dev profile is optimised): be economical, build only the crate you need (`-p shared`, `-p datalog`, `-p kolibrie`).
Finish by replying with a short summary of each change (one paragraph each) and whether all three verifications succeeded.""")
