#!/usr/bin/env python3
"""Confirm a seeded change independently of the sub-agent that wrote it, in a scratch worktree of /repo HEAD.

usage: confirm_seeded.py <staging dir of one change> <worker id>
Steps (all in /tmp/confirm/w<id>/repo, target dir /tmp/confirm/w<id>/target):
  1. demo on the unmodified tree must PASS
  2. patch applies; demo must FAIL
  3. the existing test suite (workspace, lib+bins+tests) must still pass with the patch
     (only the baseline's always-failing rsp_ql_dstream_semantics may fail)
Writes <dir>/confirm.json.
"""
import json, os, re, subprocess, sys, time, shutil

d = os.path.abspath(sys.argv[1])
w = sys.argv[2]
base = "/tmp/confirm/w%s" % w
repo = base + "/repo"
env = dict(os.environ, CARGO_TARGET_DIR=base + "/target", CARGO_NET_OFFLINE="true", CARGO_BUILD_JOBS=os.environ.get("CONFIRM_JOBS", "8"))


def sh(cmd, cwd=repo, timeout=7200):
    p = subprocess.run(cmd, shell=True, cwd=cwd, env=env, stdout=subprocess.PIPE, stderr=subprocess.STDOUT, timeout=timeout)
    return p.returncode, p.stdout.decode("utf-8", "replace")


os.makedirs(base, exist_ok=True)
if not os.path.exists(repo):
    rc, out = sh("git -C /repo worktree add --detach %s HEAD" % repo, cwd="/")
    assert rc == 0, out
sh("git checkout -q --detach $(git -C /repo rev-parse HEAD) && git checkout -- . && git clean -fdq")
res = {"dir": d, "head": sh("git rev-parse --short HEAD")[1].strip()}

# where does the demo go?
run_md = open(os.path.join(d, "RUN.md")).read() if os.path.exists(os.path.join(d, "RUN.md")) else ""
demo_src = None
for cand in ("demo_test.rs", "demo.rs"):
    if os.path.exists(os.path.join(d, cand)):
        demo_src = os.path.join(d, cand)
m = re.search(r"\b((?:kolibrie|shared|datalog)/tests/[\w]+\.rs)", run_md)
if not demo_src or not m:
    res["error"] = "cannot locate demo / destination"
    json.dump(res, open(os.path.join(d, "confirm.json"), "w"), indent=1)
    sys.exit(1)
dest = m.group(1)
crate = dest.split("/")[0]
test_name = os.path.splitext(os.path.basename(dest))[0]
res.update(demo_dest=dest, crate=crate, test=test_name)
os.makedirs(os.path.dirname(os.path.join(repo, dest)), exist_ok=True)
shutil.copy(demo_src, os.path.join(repo, dest))
demo_cmd = "cargo test -p %s --test %s --offline 2>&1 | tail -40" % (crate, test_name)


def summarize(out):
    m = re.findall(r"test result: (\w+)\. (\d+) passed; (\d+) failed", out)
    return m


t = time.time()
rc, out = sh(demo_cmd)
res["demo_unmodified"] = {"results": summarize(out), "ok": bool(summarize(out)) and all(r[0] == "ok" for r in summarize(out))}
# apply patch
rc, out = sh("git apply --check '%s/patch.diff'" % d)
if rc != 0:
    rc3, out3 = sh("git apply --3way '%s/patch.diff'" % d)
    res["patch_applies"] = rc3 == 0
    res["patch_note"] = "needed --3way" if rc3 == 0 else out[-400:]
else:
    sh("git apply '%s/patch.diff'" % d)
    res["patch_applies"] = True
if res["patch_applies"]:
    rc, out = sh(demo_cmd)
    s = summarize(out)
    res["demo_patched"] = {"results": s, "fails": (not s) or any(r[0] != "ok" for r in s), "compile_error": "error[" in out or "could not compile" in out}
    # existing suite (without the demo file, to keep it the *existing* suite)
    os.remove(os.path.join(repo, dest))
    rc, out = sh("cargo test --workspace --lib --bins --tests --no-fail-fast --offline 2>&1 | grep -E '^test .* FAILED|^test result|could not compile|^error' ")
    failed = re.findall(r"^test (\S+) \.\.\. FAILED", out, re.M)
    totals = summarize(out)
    # a test other than the baseline's always-failing one: timing-dependent tests of the baseline (e.g.
    # rsp_ql_multi_window_integration, which sleeps 2 s) fail now and then on a loaded machine, with or without the
    # change; re-run such a test alone and count it as flaky only if it then passes twice
    flaky = []
    for tname in [x for x in failed if x != "rsp_ql_dstream_semantics"]:
        ok2 = True
        for _ in range(2):
            rc2, out2 = sh("cargo test --workspace --lib --bins --tests --offline %s 2>&1 | grep -E '^test .*%s' " % (tname, tname))
            if "FAILED" in out2 or "ok" not in out2:
                ok2 = False
        if ok2:
            flaky.append(tname)
    failed = [x for x in failed if x not in flaky]
    res["flaky_rerun_passed"] = flaky
    res["suite_patched"] = {"failed_tests": failed, "passed": sum(int(r[1]) for r in totals), "n_failed": sum(int(r[2]) for r in totals),
                            "compile_error": "could not compile" in out,
                            "ok": (not ("could not compile" in out)) and set(failed) <= {"rsp_ql_dstream_semantics"} and len(totals) > 10}
res["wall_s"] = round(time.time() - t, 1)
res["confirmed"] = bool(res.get("patch_applies") and res["demo_unmodified"]["ok"] and res.get("demo_patched", {}).get("fails")
                        and not res.get("demo_patched", {}).get("compile_error") and res.get("suite_patched", {}).get("ok"))
sh("git checkout -- . && git clean -fdq")
json.dump(res, open(os.path.join(d, "confirm.json"), "w"), indent=1)
print(d, "confirmed" if res["confirmed"] else "NOT CONFIRMED", res.get("suite_patched", {}).get("failed_tests"), res["wall_s"])
