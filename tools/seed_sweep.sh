#!/bin/sh
# usage: seed_sweep.sh "<seeds>" "<props>"  -> /verif/.cache/sweep/<prop>_<seed>.log ; summary on stdout
mkdir -p /verif/.cache/sweep
cd /verif
for s in $1; do for p in $2; do
  VERIF_SEED=$s ./check $p --tier quick > /verif/.cache/sweep/${p}_$s.log 2>&1; rc=$?
  echo "$p seed=$s exit=$rc $(grep -c '^VIOLATION' /verif/.cache/sweep/${p}_$s.log) violations; $(tail -1 /verif/.cache/sweep/${p}_$s.log | cut -c1-120)"
done; done
