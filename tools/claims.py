HOOK_COMMITS = []
NOT_YET = {}
CLAIMED["C04"] = dict(
    text="Machine-checked refinement proof (Coq): for every finite history of store operations, the model of the four redundant indexes (tries with pruning, catalog) agrees output-for-output with the abstract quad set; the model is tied to shared/src/dataset_index.rs by an exhaustive small-scope plus random differential check on every run.",
    note="Trusted: Coq kernel + vm_compute; the hand-written Gallina model (coq/Store/Model.v); the correspondence harness and its finite case set; hash maps modelled as association lists, u32 as N; legacy deserialised indexes outside the model.",
    technique="Coq refinement proof (invariant by induction over operation histories) + model/implementation differential correspondence",
)
