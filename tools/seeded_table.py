#!/usr/bin/env python3
"""Prints the markdown table of DESIGN.md section 13 from seeded/*/meta.json."""
import json, os
DESC = {
 "C01-1": "multi-key ORDER BY applied as one stable sort per key in written order (last key becomes primary)",
 "C01-2": "sub-select evaluated from the incoming rows instead of the unit row (hidden variables constrained, inner modifiers see restricted answer)",
 "C01-3": "plan memo key of a GRAPH operator drops the graph term: two GRAPH operators with scan-free bodies share a cache entry",
 "C02-1": "hash join keyed on variables bound in every row, residual compatibility check dropped (heterogeneous rows under a forced hash join)",
 "C02-2": "optimizer prunes GRAPH <iri> from stale statistics (a graph loaded after the statistics were cached answers nothing)",
 "C02-3": "bind join gives each worker len/workers rows and drops the len % workers remainder (>= 64 x workers rows, pool size > 1)",
 "C03-1": "template instantiation skips solutions that agree on the template variables (blank nodes no longer fresh per solution)",
 "C03-2": "quads both deleted and inserted are dropped from both sets (wrong when the quad was not stored before)",
 "C03-3": "deletions applied before the INSERT template is instantiated (legality check consults the half-updated store)",
 "C04-1": "bulk clear_graph removes the whole triple entry of spog even when other graphs hold the triple",
 "C04-2": "drop_graph removes the identity first and clear_graph puts it back for a non-empty graph (phantom graph)",
 "C04-3": "fully bound fast path of query_merged_graphs ignores the default graph as a merge source",
 "C05-1": "hash-join probe side split into len/chunk_size chunks rounded down: tail of > 1000 matching facts never probed (>= 2 threads)",
 "C05-2": "semi-naive: premises after the delta-matched one join only against pre-delta facts (>= 3 premises, same-round feeders)",
 "C05-3": "naive: the conclusion loop breaks once one conclusion of a rule instance is already known",
 "C06-1": "DNF is_saturated compares clause counts (a shorter subsuming proof found later is discarded)",
 "C06-2": "a fact improved while already in the current delta is not re-queued (consumer rule ordered before the improving rule)",
 "C06-3": "noisy-OR fast path in recover_probability tests disjointness only between neighbouring clauses",
 "C07-1": "try_literal reserves the unique-table slot before the budget check: stale entry after exhaustion at that checkpoint",
 "C07-2": "try_unique_d sorts elements by sub only: budgeted and plain constructors intern one node under two keys (mixed API use)",
 "C07-3": "gradient derives the negative cofactor as (base - a*pos)/neg: NaN and a dropped variable at probability exactly 1.0",
 "C08-1": "proof upper bound multiplied incrementally: a seed met twice on one path counted twice (nested DAG, cap hit, threshold between)",
 "C08-2": "retained_proof_wmc keeps the partial disjunction when the deadline expires after the first clause (reported as Exact)",
 "C08-3": "exactly-one constraint restricted to the choices the lineage mentions (negation over an exclusive group)",
 "C09-1": "lower-bound test dropped when inserting an item (width < slide: item in the gap lands in a later window)",
 "C09-2": "scope() fast path trusts a window start that was clamped to 0 (width > slide, width % slide != 0, start-up)",
 "C09-3": "closed but unreported non-empty windows are kept and reported later (reports go back in time after a gap)",
 "C10-1": "materialize skipped on an empty window: previous firing's derived triples survive",
 "C10-2": "ISTREAM remembered set grows instead of being replaced (row present, absent, present again)",
 "C10-3": "window worker queue bounded to 64 with try_send: firings dropped when the worker lags (multi-thread only)",
 "C11-1": "stream routing compares local names only: streams differing in namespace share a routing key",
 "C11-2": "WINDOW blocks paired with declarations by position (blocks written in another order / a window without block)",
 "C11-3": "natural_join as a hash join keyed on values joined with a blank, no re-check (literals with spaces, >= 2 shared variables)",
 "C12-1": "improved facts re-enter the delta only when the previous round produced no new facts",
 "C12-2": "(rebased) tags of every currently listed triple refreshed to the listing expiry after seeding: derivation-based longer expiry overwritten",
 "C12-3": "ExpirationProvenance::is_saturated compares expiries as f64 with an epsilon (timestamps above 2^53, small extensions)",
 "C13-1": "parse_ntriples splits into lines/workers chunks and drops the remainder (>= 2000 lines, > 1 thread)",
 "C13-2": "loaders keep an already registered prefix (entry().or_insert): a re-declared prefix expands to the old namespace",
 "C13-3": "N-Quads loader caches the previous statement's graph: a triple after a quad lands in the quad's graph",
 "C14-1": "tokenizer backslash arm loses the !escaped guard: a literal ending in a backslash glues the graph label to the object",
 "C14-2": "split_quoted_triple_content keeps only the first three parts: inner multi-word literal of a quoted triple truncated",
 "C14-3": "escape_ntriples_literal uses chars().enumerate() as byte offsets: non-ASCII before an escapable character corrupts or panics",
 "C15-1": "union fast path for equal plain dictionaries folds the quoted stores with merge (self wins on clashing quoted ids)",
 "C15-2": "reencode_term_id appends quoted triples under a fresh id without the structural lookup (same quoted triple in both databases)",
 "C15-3": "Dictionary::encode guard `<` becomes `<=`: the plain id 2^31 collides with the first quoted id",
 "C16-1": "\\u/\\U escape length check no longer validates hex digits (multi-byte char in the window panics; `+041` accepted)",
 "C16-2": "# comments end only at LF: a bare CR comment swallows the rest (lost ORDER BY/LIMIT; garbage accepted)",
 "C16-3": "&&/|| precedence lost: one left-to-right fold over atoms",
 "C17-1": "parse-error offset computed as len - len(slice) again (offending-token errors + multi-byte character: panic)",
 "C17-2": "FROM / FROM NAMED of a SELECT registers the graphs in the catalog (query entry point modifies the catalog)",
 "C17-3": "query entry point falls back to the compatibility pipeline on a strict parse failure (legacy INSERT {..} alias executed)",
 "C18-1": "first_fresh_variable_index takes the last v<n> of the goal instead of the largest",
 "C18-2": "unify_terms no longer dereferences through the bindings (variable repeated inside one pattern overwritten)",
 "C18-3": "(rebased) memo of failed sub-goals ignores the depth at which they failed (long path explored before a shortcut)",
 "C19-1": "final filter keeps the largest candidates instead of the subset-maximal ones (repairs of different sizes)",
 "C19-2": "repair-aware materialisation checks a new triple only against matches involving it in all_facts (triple matching two premises of one constraint)",
 "C19-3": "repair search restricted to facts whose predicate occurs as a constant in a constraint (variable-predicate constraints)",
}

DESC.update({
 "C01r2-1": "top-level DISTINCT under ORDER BY becomes a dedup of neighbouring rows (keys not covering the projection)",
 "C01r2-2": "a scan on a predicate the cached statistics have not seen is planned as the empty relation (stale statistics after API writes)",
 "C01r2-3": "the duplicate filter of a merged default graph (several FROM) is shared across incoming rows of one scan call",
 "C02r2-1": "stale statistics prune a GRAPH <g> block at plan time (second variant, via fixed_graph_is_visible)",
 "C02r2-2": "merged-default-graph `seen` set never cleared between rows (bind/star join sides, thread-count dependent)",
 "C02r2-3": "sub-select DISTINCT becomes an adjacent-row dedup when ORDER BY is present (plan-dependent duplicates)",
 "C03r2-1": "repeated WHERE solutions are instantiated once (identical solutions must still get distinct blank nodes)",
 "C03r2-2": "one un-instantiable template quad discards the whole solution (collect::<Option<..>> short-circuit)",
 "C03r2-3": "deletions \\ insertions and insertions \\ deletions applied instead of delete-then-insert",
 "C05r2-1": "semi-naive pushes filters down onto partial bindings (variable-variable filter evaluated before its second variable is bound)",
 "C05r2-2": "hash join binds the predicate variable before subject/object: (?s ?v ?v) matches every triple",
 "C05r2-3": "parallel strategy skips the second-premise role of a delta fact that already matched the first premise",
 "C06r2-1": "re-queue set seeded with the current delta: a fact improved in the round in which it is a trigger is not re-queued",
 "C06r2-2": "first-derivation test uses has_explicit_tag: an implicit tag `one` is overwritten by a later uncertain derivation",
 "C06r2-3": "loop over a rule's conclusions breaks when update_disjunction reports no change for one head",
 "C10r2-1": "ISTREAM remembered set only grows (second variant)",
 "C10r2-2": "multi-thread worker coalesces consecutive queued firings with the same triple set (wrong for RSTREAM)",
 "C10r2-3": "queue to the worker bounded to 128 with try_send (second variant; blocking send kept in flush)",
 "C11r2-1": "window processor evicts previous \\ current and inserts current \\ previous but tracks only inserted triples (stale triple after an even number of firings)",
 "C11r2-2": "natural_join as a hash join with a blank-joined key (second variant)",
 "C11r2-3": "WINDOW blocks paired with declarations by position (second variant, builder.rs)",
 "C13r2-1": "Turtle prefix declaration no longer replaces an existing binding",
 "C13r2-2": "N-Quads graph label sticks to later label-less lines (second variant)",
 "C13r2-3": "N-Triples loader trims only the end of a line before the comment test: an indented comment becomes a triple",
 "C16r2-1": "hex-digit scan before &hexadecimal[..digits] removed in sparql_quoted_literal (panic on multi-byte char, +041 accepted)",
 "C16r2-2": "# comments end only at LF (second variant)",
 "C16r2-3": "keyword look-ahead after a dangling `;` becomes case-sensitive (`; graph` read as a predicate)",
 "C17r2-1": "missing-prefix diagnostic slices the lower-cased copy with offsets of the original (case mapping changes UTF-8 length: Kelvin sign)",
 "C17r2-2": "FROM NAMED of a SELECT registers graphs in the catalog (second variant, build_dataset_view)",
 "C17r2-3": "error_offset replaced by nom::Offset::offset: an error slice outside the request (static \"\" after a trailing comment) underflows",
})

DESC.update({
 "C01r3-1": "bind join uses par_chunks_exact: the trailing len % chunk rows of the left side vanish (> 64 rows, not a multiple, >= 2 threads)",
 "C01r3-2": "&& / || in FILTER short-circuit on the left operand with `?`: error || true and error && false become errors (unbound left operand)",
 "C03r3-1": "templates instantiated once per distinct projection of the solution onto the template variables (blank-node templates no longer fresh per solution)",
 "C04r3-1": "named-graph lookup with a visibility set probes the set's members directly (default graph id in the set leaks default-graph quads)",
 "C04r3-2": "index rebuild of a store without quads clears the whole dataset index (named-graph identities of empty graphs vanish)",
 "C05r3-1": "rule hash join probes with par_chunks_exact: tail of > 1000 matching facts never joined (>= 2 threads)",
 "C05r3-2": "semi-naive skips a rule when no constant premise predicate occurs in the delta (rule mixing variable- and constant-predicate premises, second round)",
 "C07r3-1": "try_unique_d reserves the unique-table slot through the entry API before the budget check (stale entry after exhaustion exactly at a Decision allocation)",
 "C09r3-1": "scope() returns early while ts stays in the slide bucket of the last report (width % slide != 0: a window opening inside the bucket is created late, items missing)",
 "C12r3-1": "a fact improved while it is in the current delta is not re-queued (consumer rule listed before the improving rule)",
 "C13r3-1": "N-Triples loader strips a trailing comment at the last `#` preceded by a dot (a `#` inside an IRI or literal after a dot truncates the statement)",
 "C13r3-2": "`!escaped` guard dropped from the backslash arm of the N-Triples/N-Quads term splitter (character after an escaped backslash treated as escaped)",
 "C15r3-1": "union fast path for equal dictionaries pre-fills the identity translation and merges the quoted stores (clashing quoted ids)",
 "C15r3-2": "Dictionary::encode inserts into string_to_id before the id-range check (refused call leaves term -> 2^31 behind)",
 "C16r3-1": "hex-digit check dropped from the IRI \\u/\\U escape scanner (multi-byte char straddling the window panics; sign accepted)",
 "C18r3-1": "only the first unifying conclusion of a multi-conclusion rule is expanded (find_map)",
 "C18r3-2": "first fresh variable index takes the last v<n> of the goal, not the largest (second variant)",
 "C19r3-1": "repair-aware materialisation checks a candidate semi-naively against all_facts without the candidate (fact matching two premises of one constraint)",
 "C19r3-2": "repair search restricted to facts whose predicate a constraint names; variable-predicate premises skipped (schema-level constraints)",
})

S = "/verif/seeded"
print("| id | change (written by an independent sub-agent from the property text alone) | first run of the check | now |")
print("|---|---|---|---|")
for sid in sorted(os.listdir(S)):
    mp = os.path.join(S, sid, "meta.json")
    if not os.path.exists(mp):
        continue
    m = json.load(open(mp))
    first = "caught"
    h = m.get("history")
    if h:
        fr = h.get("first_run", "")
        if fr.startswith("MISSED"):
            first = "**missed**"
        elif fr.startswith("only reported"):
            first = "only no-failing-input-found"
        elif "rebased" in fr:
            first = "patch had to be rebased"
    now = "; ".join(m["caught_by"]) or "**missed**"
    print("| %s | %s | %s | VIOLATION by %s |" % (sid, DESC.get(sid, ""), first, now))
