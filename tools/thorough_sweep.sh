#!/bin/sh
mkdir -p /verif/.cache/thorough
cd /verif
for p in $1; do
  s=$(date +%s)
  VERIF_JOBS=${VERIF_JOBS:-10} ./check $p --tier thorough > /verif/.cache/thorough/$p.log 2>&1; rc=$?
  echo "$p thorough exit=$rc $(( $(date +%s) - s ))s $(grep -c '^VIOLATION' /verif/.cache/thorough/$p.log) violations; $(tail -1 /verif/.cache/thorough/$p.log | cut -c1-110)"
done
