#!/bin/sh
# usage: harvest_mut.sh <name>  : copy /tmp/mut/<name>/out to staging, remove worktree + target
n="$1"
mkdir -p /verif/.cache/seeded_staging
rm -rf /verif/.cache/seeded_staging/$n
cp -r /tmp/mut/$n/out /verif/.cache/seeded_staging/$n
git -C /repo worktree remove --force /tmp/mut/$n/repo 2>/dev/null
rm -rf /tmp/mut/$n
find /verif/.cache/seeded_staging/$n -name "*.log" -size +200k -delete
ls /verif/.cache/seeded_staging/$n
