#!/bin/sh
# usage: mk_mut_worktree.sh <name>   -> /tmp/mut/<name>/repo (git worktree of /repo HEAD) + prebuilt target copy
set -e
n="$1"
mkdir -p /tmp/mut/$n/out
git -C /repo worktree add --detach /tmp/mut/$n/repo HEAD >/dev/null 2>&1
cp -r /repo/target /tmp/mut/$n/target
echo "/tmp/mut/$n ready"
