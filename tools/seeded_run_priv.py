#!/usr/bin/env python3
"""Run registered checks against seeded changes in a PRIVATE copy (several workers can run side by side).

usage: seeded_run_priv.py <worker id> <PROP>:<dir with patch.diff> [<PROP>:<dir> ...]
Per worker: /tmp/sr/w<id>/repo is a scratch git worktree of /repo HEAD, /tmp/sr/w<id>/verif a copy of /verif
(without .cache/.git) whose harness crate points at that worktree (own cargo target, own work dirs).  For every
item: git apply patch, `VERIF_REPO=... ./check PROP --tier quick` in the copy, git checkout -- . ; the result is
written to <dir>/result.json (same format as seeded_run.py).  /repo itself is never touched.  The registered
checks and the committed evidence always come from /verif against /repo; this tool only answers "is the change
reported?".
"""
import json, os, subprocess, sys, time, shutil

w = sys.argv[1]
items = [a.split(":", 1) for a in sys.argv[2:]]
base = "/tmp/sr/w%s" % w
repo = base + "/repo"
verif = base + "/verif"


def sh(cmd, cwd=None, timeout=7200, env=None):
    e = dict(os.environ)
    if env:
        e.update(env)
    p = subprocess.run(cmd, shell=True, cwd=cwd, env=e, stdout=subprocess.PIPE, stderr=subprocess.STDOUT, timeout=timeout)
    return p.returncode, p.stdout.decode("utf-8", "replace")


os.makedirs(base, exist_ok=True)
if not os.path.exists(repo):
    rc, out = sh("git -C /repo worktree add --detach %s HEAD" % repo)
    assert rc == 0, out
sh("git checkout -q --detach $(git -C /repo rev-parse HEAD) && git checkout -- . && git clean -fdq", cwd=repo)
rc, out = sh("rsync -a --delete --exclude .cache --exclude .git --exclude evidence --exclude replays /verif/ %s/" % verif)
assert rc == 0, out
os.makedirs(verif + "/evidence", exist_ok=True)
toml = verif + "/harness/Cargo.toml"
txt = open(toml).read().replace('"/repo/', '"%s/' % repo)
open(toml, "w").write(txt)
jobs = os.environ.get("SR_JOBS", "6")
env = {"VERIF_REPO": repo, "VERIF_JOBS": jobs, "CARGO_BUILD_JOBS": jobs}

for prop, d in items:
    d = os.path.abspath(d)
    patch = os.path.join(d, "patch.diff")
    rc, out = sh("git apply '%s'" % patch, cwd=repo)
    if rc != 0:
        print(prop, d, "patch does not apply:", out)
        json.dump({"applied": False, "error": out}, open(os.path.join(d, "result.json"), "w"), indent=1)
        continue
    t = time.time()
    try:
        rc, out = sh("./check %s --tier quick" % prop, cwd=verif, env=env)
    except subprocess.TimeoutExpired:
        rc, out = 124, "timeout"
    viol = [l for l in out.splitlines() if l.startswith("VIOLATION")]
    res = {"applied": True, "private_copy": True, "head": sh("git rev-parse --short HEAD", cwd=repo)[1].strip(),
           "checks": {prop: {"exit": rc, "violation_lines": viol[:5], "wall_s": round(time.time() - t, 1),
                              "tail": out.splitlines()[-6:]}}}
    if viol:
        rp = viol[0].split("replay=")[1].split()[0]
        try:
            shutil.copy(os.path.join(verif, rp), os.path.join(d, "replay_%s.json" % prop))
        except Exception:
            pass
    json.dump(res, open(os.path.join(d, "result.json"), "w"), indent=1)
    print(prop, os.path.basename(os.path.dirname(d)) + "/" + os.path.basename(d), "exit", rc, viol[:1], flush=True)
    sh("git checkout -- . && git clean -fdq", cwd=repo)
