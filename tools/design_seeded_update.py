#!/usr/bin/env python3
"""Rewrites the table of DESIGN.md section 13 from seeded/*/meta.json (tools/seeded_table.py) and the counts around it."""
import subprocess, re, os, json
p = "/verif/DESIGN.md"
s = open(p).read()
tab = subprocess.run(["python3", "/verif/tools/seeded_table.py"], stdout=subprocess.PIPE).stdout.decode()
i = s.index("| id | change (written by an independent sub-agent")
j = i
lines = s[i:].split("\n")
n = 0
for l in lines:
    if l.startswith("|"):
        n += 1
    else:
        break
end = i + len("\n".join(lines[:n]))
s = s[:i] + tab.rstrip("\n") + s[end:]
total = len([d for d in os.listdir("/verif/seeded") if os.path.exists("/verif/seeded/%s/meta.json" % d)])
r3 = len([d for d in os.listdir("/verif/seeded") if "r3-" in d])
s = re.sub(r"All \d+ changes \(`seeded/<id>/`; ids `Cxx-k` = first round, `Cxxr2-k` = second round[^)]*\)",
           "All %d changes (`seeded/<id>/`; ids `Cxx-k` = first round, `Cxxr2-k` = second round, `Cxxr3-k` = third round: %d)" % (total, r3), s)
open(p, "w").write(s)
print(total, r3)
