//! Shared helpers for the per-property correspondence drivers.
//! Each driver (src/bin/cXX.rs) reads one JSON case per line from the file given as argv[1]
//! and writes one JSON result per line to the file given as argv[2].  Results go to a file, never
//! to stdout, because the engine prints diagnostics on stdout.
use serde_json::Value;
use std::io::{BufRead, BufReader, BufWriter, Write};

pub fn run_cases<F: FnMut(&Value) -> Value>(mut f: F) {
    let args: Vec<String> = std::env::args().collect();
    if args.len() < 3 {
        eprintln!("usage: {} <cases.jsonl> <results.jsonl>", args[0]);
        std::process::exit(2);
    }
    let inp = BufReader::new(std::fs::File::open(&args[1]).expect("open cases"));
    let mut out = BufWriter::new(std::fs::File::create(&args[2]).expect("create results"));
    for line in inp.lines() {
        let line = line.expect("read");
        if line.trim().is_empty() {
            continue;
        }
        let case: Value = serde_json::from_str(&line).expect("case json");
        let res = f(&case);
        writeln!(out, "{}", serde_json::to_string(&res).unwrap()).unwrap();
    }
    out.flush().unwrap();
}

/// Run `f`, turning a panic into `Err(message)`.
pub fn catch<T, F: FnOnce() -> T + std::panic::UnwindSafe>(f: F) -> Result<T, String> {
    match std::panic::catch_unwind(f) {
        Ok(v) => Ok(v),
        Err(e) => {
            let msg = if let Some(s) = e.downcast_ref::<&str>() {
                s.to_string()
            } else if let Some(s) = e.downcast_ref::<String>() {
                s.clone()
            } else {
                "panic".to_string()
            };
            Err(msg)
        }
    }
}

pub fn quiet_panics() {
    std::panic::set_hook(Box::new(|_| {}));
}
