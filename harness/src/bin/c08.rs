//! C08 driver: builds a lineage DAG in the real `LineageStore` from a list of construction operations,
//! evaluates it with `evaluate_hybrid_with_clock` under an injected clock (unexpired, and with the
//! deadline expiring at the n-th clock reading for every n), and reports
//!   * the arena dump (for the `canonical_nary` correspondence),
//!   * the result of every evaluation (status, decision, reason, bounds, metrics),
//!   * the cost table of the SDD calls (number of clock readings, outcome) measured through the
//!     `verif_retained_proof_wmc` hook, which the Gallina model takes as its SDD oracle,
//!   * function-level streams: `enumerate_proofs`, `interval_from_enumeration`, `evaluate_topk`,
//!     `compile_lineage_to_sdd_with_clock`.
//! References to lineage nodes in a case: 0 = FALSE, 1 = TRUE, j+2 = result of operation j.
use serde_json::{json, Value};
use shared::hybrid::*;
use datalog::reasoning::Reasoner;
use shared::rule::Rule;
use shared::seed_spec::{ExclusiveChoice, SeedSpec};
use shared::terms::Term;
use shared::triple::Triple;
use std::collections::BTreeSet;
use std::collections::BTreeMap;
use std::panic::AssertUnwindSafe;
use std::sync::atomic::{AtomicU64, Ordering};
use std::sync::{Arc, Mutex};
use std::time::{Duration, Instant};

const BIG_NS: u64 = 10_000_000_000;

/// Injected clock. Reading i (0-based) returns base + value(i) nanoseconds:
///   Frozen           : i
///   Sticky(n)        : i                      for i < n,   i + BIG*(i-n+1) afterwards (every later deadline is expired too)
///   Jump(n)          : i                      for i < n,   i + BIG        afterwards (one jump)
///   Edge(n, v)       : i                      for i < n,   v              afterwards (frozen at v)
///   List(values)     : values[i]              for i < len, last + (i-len+1) afterwards
enum Mode {
    Frozen,
    Sticky(u64),
    Jump(u64),
    Edge(u64, u64),
    List(Vec<u64>),
}

struct TestClock {
    base: Instant,
    count: AtomicU64,
    mode: Mode,
}

impl TestClock {
    fn new(base: Instant, mode: Mode) -> Self {
        Self { base, count: AtomicU64::new(0), mode }
    }
    fn readings(&self) -> u64 {
        self.count.load(Ordering::SeqCst)
    }
}

impl HybridClock for TestClock {
    fn now(&self) -> Instant {
        let i = self.count.fetch_add(1, Ordering::SeqCst);
        let v = match &self.mode {
            Mode::Frozen => i,
            Mode::Sticky(n) => if i < *n { i } else { i + BIG_NS * (i - n + 1) },
            Mode::Jump(n) => if i < *n { i } else { i + BIG_NS },
            Mode::Edge(n, v) => if i < *n { i } else { *v },
            Mode::List(vs) => {
                if (i as usize) < vs.len() { vs[i as usize] } else { vs.last().copied().unwrap_or(0) + (i - vs.len() as u64 + 1) }
            }
        };
        self.base + Duration::from_nanos(v)
    }
}

fn frac(v: &Value) -> f64 {
    let a = v.as_array().unwrap();
    a[0].as_f64().unwrap() / a[1].as_f64().unwrap()
}

fn reason_str(r: &HybridReason) -> &'static str {
    r.as_str()
}

fn render(result: &HybridProbabilityResult) -> Value {
    let m = result.metrics();
    let decision = match result.decision() {
        AlertDecision::Alert => "Alert",
        AlertDecision::NoAlert => "NoAlert",
        AlertDecision::Indeterminate => "Indeterminate",
    };
    let mut o = json!({
        "status": result.status(),
        "decision": decision,
        "reason": reason_str(result.reason()),
        "k_used": m.k_used,
        "fe": m.frontier_exhausted,
        "cap_hit": m.cap_hit,
        "mg": m.marginal_gain,
        "exact_used": m.exact_used,
        "width": m.interval_width,
        "topk_ns": m.topk_latency.as_nanos() as u64,
        "sdd_ns": m.sdd_latency.as_nanos() as u64,
    });
    match result {
        HybridProbabilityResult::Exact { probability, .. } => {
            o["p"] = json!(probability);
        }
        HybridProbabilityResult::LowerBound { lower_bound, .. } => {
            o["lo"] = json!(lower_bound);
        }
        HybridProbabilityResult::Bounded { interval, .. } => {
            o["lo"] = json!(interval.lower);
            o["hi"] = json!(interval.upper);
        }
        HybridProbabilityResult::NeedsExact { lower_bound, upper_bound, .. } => {
            o["lo"] = json!(lower_bound);
            o["hi"] = json!(upper_bound);
        }
        HybridProbabilityResult::UnsafeApproximation { estimate, .. } => {
            o["p"] = json!(estimate);
        }
    }
    o
}

struct Built {
    store: LineageStore,
    ids: Vec<LineageId>,
}

fn lref(ids: &[LineageId], r: u64) -> LineageId {
    match r {
        0 => LineageId::FALSE,
        1 => LineageId::TRUE,
        j => ids[(j - 2) as usize],
    }
}

fn build(ops: &[Value]) -> Built {
    let mut store = LineageStore::new();
    let mut ids: Vec<LineageId> = Vec::new();
    for op in ops {
        let a = op.as_array().unwrap();
        let id = match a[0].as_str().unwrap() {
            "lit" => store.literal(verif_seed_id(a[1].as_u64().unwrap() as u32)),
            "not" => {
                let x = lref(&ids, a[1].as_u64().unwrap());
                store.not(x)
            }
            "and" => {
                let xs: Vec<LineageId> = a[1].as_array().unwrap().iter().map(|r| lref(&ids, r.as_u64().unwrap())).collect();
                store.and(xs)
            }
            "or" => {
                let xs: Vec<LineageId> = a[1].as_array().unwrap().iter().map(|r| lref(&ids, r.as_u64().unwrap())).collect();
                store.or(xs)
            }
            other => panic!("unknown op {}", other),
        };
        ids.push(id);
    }
    Built { store, ids }
}

fn dump(b: &Built) -> Value {
    let mut seen: BTreeMap<u32, Value> = BTreeMap::new();
    let mut all = vec![LineageId::FALSE, LineageId::TRUE];
    all.extend(b.ids.iter().copied());
    for id in all {
        let v = match b.store.node(id) {
            LineageNode::False => json!(["F"]),
            LineageNode::True => json!(["T"]),
            LineageNode::Literal(s) => json!(["L", s.get()]),
            LineageNode::Not(c) => json!(["N", c.get()]),
            LineageNode::And(cs) => json!(["A", cs.iter().map(|c| c.get()).collect::<Vec<_>>()]),
            LineageNode::Or(cs) => json!(["O", cs.iter().map(|c| c.get()).collect::<Vec<_>>()]),
        };
        seen.insert(id.get(), v);
    }
    json!({"len": b.store.len(), "nodes": seen.into_iter().map(|(k, v)| json!([k, v])).collect::<Vec<_>>()})
}

fn snapshot(seeds: &[Value]) -> Result<SeedSnapshot, String> {
    let mut specs: Vec<SeedSpec> = Vec::new();
    let mut groups: BTreeMap<u32, Vec<ExclusiveChoice>> = BTreeMap::new();
    for s in seeds {
        let a = s.as_array().unwrap();
        let id = a[0].as_u64().unwrap() as u32;
        let p = a[1].as_f64().unwrap() / a[2].as_f64().unwrap();
        let triple = Triple { subject: 1000 + id, predicate: 10, object: 20 };
        match a[3].as_u64() {
            None => specs.push(SeedSpec::Independent { triple, prob: p, seed_id: id }),
            Some(g) => groups.entry(g as u32).or_default().push(ExclusiveChoice { triple, prob: p, choice_id: id }),
        }
    }
    for (g, choices) in groups {
        specs.push(SeedSpec::ExclusiveGroup { group_id: g, choices });
    }
    SeedSnapshot::from_seed_specs(&specs).map_err(|e| format!("{}", e))
}

fn config(c: &Value) -> HybridConfig {
    HybridConfig {
        threshold: frac(&c["thr"]),
        threshold_policy: ThresholdPolicyKind::Explicit,
        band_epsilon: frac(&c["band"]),
        marginal_gain_floor: frac(&c["floor"]),
        k_initial: c["k0"].as_u64().unwrap() as usize,
        k_max: c["kmax"].as_u64().unwrap() as usize,
        k_growth: c["kg"].as_u64().unwrap() as usize,
        topk_budget: Duration::from_nanos(c["tb"].as_u64().unwrap_or(1_000_000_000)),
        sdd_budget: Duration::from_nanos(c["sb"].as_u64().unwrap_or(2_000_000_000)),
        sdd_node_budget: c["nodes"].as_u64().unwrap() as usize,
    }
}

fn schedule(cfg: &HybridConfig) -> Vec<usize> {
    let mut ks = Vec::new();
    let mut k = cfg.k_initial;
    loop {
        ks.push(k);
        if k >= cfg.k_max || ks.len() > 40 {
            break;
        }
        k = k.saturating_mul(cfg.k_growth).min(cfg.k_max);
    }
    ks
}

fn wmc_call(proofs: &[Vec<u32>], seeds: &SeedSnapshot, node_budget: usize) -> Value {
    let base = Instant::now();
    let clock = TestClock::new(base, Mode::Frozen);
    let deadline = base + Duration::from_secs(3600);
    match verif_retained_proof_wmc(proofs, seeds, deadline, node_budget, &clock) {
        Ok((v, _nodes)) => json!({"c": clock.readings(), "out": 0, "v": v}),
        Err(code) => json!({"c": clock.readings(), "out": 1 + code as u64}), // 1 deadline (impossible here), 2 nodes, 3 missing
    }
}

fn enum_call(store: &LineageStore, seeds: &SeedSnapshot, root: LineageId, cap: usize, expire_at: Option<u64>) -> Value {
    let base = Instant::now();
    let clock = TestClock::new(base, match expire_at { None => Mode::Frozen, Some(n) => Mode::Sticky(n) });
    let deadline = base + Duration::from_secs(1);
    match verif_enumerate_proofs(store, seeds, root, cap, deadline, &clock) {
        Ok((proofs, kind, mass)) => json!({"proofs": proofs, "kind": kind, "mass": mass, "readings": clock.readings()}),
        Err(r) => json!({"err": reason_str(&r), "readings": clock.readings()}),
    }
}

fn run_eval(store: &Arc<Mutex<LineageStore>>, seeds: &Arc<SeedSnapshot>, root: LineageId, cfg: &HybridConfig, mode: Mode) -> (Value, u64) {
    let clock = TestClock::new(Instant::now(), mode);
    let r = evaluate_hybrid_with_clock(store, seeds, root, cfg, &clock);
    (render(&r), clock.readings())
}

fn compile_call(store: &LineageStore, seeds: &SeedSnapshot, root: LineageId, cfg: &HybridConfig, mode: Mode) -> (Value, u64) {
    let clock = TestClock::new(Instant::now(), mode);
    let r = compile_lineage_to_sdd_with_clock(store, seeds, root, cfg.sdd_budget, cfg.sdd_node_budget, &clock);
    let v = match r {
        Ok(c) => json!({"ok": c.manager.wmc(c.root)}),
        Err(reason) => json!({"err": reason_str(&reason)}),
    };
    (v, clock.readings())
}

fn term(v: &Value, enc: &mut dyn FnMut(u64) -> u32) -> Term {
    match v.as_u64() {
        Some(c) => Term::Constant(enc(c)),
        None => Term::Variable(v.as_str().unwrap().to_string()),
    }
}

fn patterns(v: &Value, enc: &mut dyn FnMut(u64) -> u32) -> Vec<(Term, Term, Term)> {
    v.as_array().map(|ps| ps.iter().map(|p| (term(&p[0], enc), term(&p[1], enc), term(&p[2], enc))).collect()).unwrap_or_default()
}

/// End-to-end: Reasoner::infer_new_facts_with_hybrid on seed facts + rules; for every derived fact the result and
/// the part of the real lineage DAG below its lineage handle (so that the oracle can compute the true probability
/// of exactly the formula that was evaluated).
fn e2e(case: &Value) -> Value {
    let facts = case["facts"].as_array().unwrap();
    let mut reasoner = Reasoner::new();
    // constants must be dictionary terms: the rule engine joins on decoded strings
    let dict = reasoner.dictionary.clone();
    let mut enc = move |n: u64| -> u32 { dict.write().unwrap().encode(&format!("http://e/{}", n)) };
    let mut specs = Vec::new();
    for (i, f) in facts.iter().enumerate() {
        let triple = Triple { subject: enc(f[0].as_u64().unwrap()), predicate: enc(f[1].as_u64().unwrap()), object: enc(f[2].as_u64().unwrap()) };
        specs.push(SeedSpec::Independent { triple, prob: f[3].as_f64().unwrap() / f[4].as_f64().unwrap(), seed_id: i as u32 });
    }
    let snapshot = match SeedSnapshot::from_seed_specs(&specs) {
        Ok(s) => s,
        Err(e) => return json!({"error": format!("{}", e)}),
    };
    for r in case["rules"].as_array().unwrap() {
        reasoner.add_rule(Rule { premise: patterns(&r["premise"], &mut enc), negative_premise: patterns(&r["negative"], &mut enc), filters: vec![], conclusion: patterns(&r["conclusion"], &mut enc) });
    }
    let cfg = config(&case["cfg"]);
    match reasoner.infer_new_facts_with_hybrid(snapshot, &cfg) {
        Err(e) => json!({"error": format!("{}", e)}),
        Ok((new_facts, results, mat)) => {
            let prov = mat.tags.provenance();
            let store = prov.store().lock().unwrap();
            let mut out = Vec::new();
            for t in &new_facts {
                let root = mat.lineage(t);
                let mut nodes: BTreeMap<u32, Value> = BTreeMap::new();
                let mut stack = vec![root];
                let mut seen: BTreeSet<u32> = BTreeSet::new();
                while let Some(id) = stack.pop() {
                    if !seen.insert(id.get()) { continue; }
                    let v = match store.node(id) {
                        LineageNode::False => json!(["F"]),
                        LineageNode::True => json!(["T"]),
                        LineageNode::Literal(s) => json!(["L", s.get()]),
                        LineageNode::Not(c) => { stack.push(*c); json!(["N", c.get()]) }
                        LineageNode::And(cs) => { stack.extend(cs.iter().copied()); json!(["A", cs.iter().map(|c| c.get()).collect::<Vec<_>>()]) }
                        LineageNode::Or(cs) => { stack.extend(cs.iter().copied()); json!(["O", cs.iter().map(|c| c.get()).collect::<Vec<_>>()]) }
                    };
                    nodes.insert(id.get(), v);
                }
                let res = results.get(t).map(render).unwrap_or(json!(null));
                out.push(json!({"triple": [t.subject, t.predicate, t.object], "root": root.get(),
                                "nodes": nodes.into_iter().map(|(k, v)| json!([k, v])).collect::<Vec<_>>(), "result": res}));
            }
            json!({"facts": out})
        }
    }
}

fn main() {
    vharness::quiet_panics();
    vharness::run_cases(|case| {
        let case = case.clone();
        let r = vharness::catch(AssertUnwindSafe(move || {
            if case["e2e"].as_bool().unwrap_or(false) {
                return e2e(&case);
            }
            let ops = case["ops"].as_array().cloned().unwrap_or_default();
            let built = build(&ops);
            let mut out = json!({});
            out["ids"] = json!(built.ids.iter().map(|i| i.get()).collect::<Vec<_>>());
            out["arena"] = dump(&built);
            if case["root"].is_null() {
                return out;
            }
            let root = lref(&built.ids, case["root"].as_u64().unwrap());
            out["root"] = json!(root.get());
            let seeds = match snapshot(case["seeds"].as_array().unwrap()) {
                Ok(s) => s,
                Err(e) => {
                    out["seed_error"] = json!(e);
                    return out;
                }
            };
            let cfg = config(&case["cfg"]);
            let valid = cfg.validate().is_ok();
            out["valid"] = json!(valid);
            let meta = built.store.metadata(root, &seeds);
            out["meta"] = json!({"monotone": meta.monotone, "neg": meta.has_negation, "excl": meta.has_exclusive_group, "cycle": meta.has_cycle});
            let max_n = case["max_n"].as_u64().unwrap_or(100_000);

            // ---- SDD cost table and function-level streams (on the bare store) ----
            let ks = if valid { schedule(&cfg) } else { Vec::new() };
            let mut table = Vec::new();
            let mut enums = Vec::new();
            let mut topks = Vec::new();
            for &k in &ks {
                let e = enum_call(&built.store, &seeds, root, k + 1, None);
                let mut row = json!({"k": k});
                if e["err"].is_null() {
                    let proofs: Vec<Vec<u32>> = serde_json::from_value(e["proofs"].clone()).unwrap();
                    let rc = proofs.len().min(k);
                    let ret = wmc_call(&proofs[..rc], &seeds, cfg.sdd_node_budget);
                    row["ret"] = ret.clone();
                    if proofs.len() > k {
                        row["probe"] = wmc_call(&proofs[..=k], &seeds, cfg.sdd_node_budget);
                    }
                    // interval_from_enumeration on the unexpired enumeration
                    if ret["out"] == json!(0) {
                        let lower = ret["v"].as_f64().unwrap();
                        let iv = verif_interval_from_enumeration(lower, &proofs, rc, e["kind"].as_u64().unwrap() as u8, e["mass"].as_f64().unwrap(), &seeds);
                        row["interval"] = match iv {
                            Ok(Some(i)) => json!([i.lower, i.upper]),
                            Ok(None) => json!("none"),
                            Err(r) => json!(reason_str(&r)),
                        };
                    }
                }
                let mut erow = json!({"cap": k + 1, "unexpired": e.clone()});
                let readings = e["readings"].as_u64().unwrap_or(0);
                let mut exp = Vec::new();
                for j in 0..readings.min(max_n) {
                    exp.push(enum_call(&built.store, &seeds, root, k + 1, Some(j)));
                }
                erow["expiry"] = json!(exp);
                enums.push(erow);
                table.push(row);
                let t = evaluate_topk(&built.store, &seeds, root, k, Duration::from_secs(20), cfg.sdd_node_budget);
                topks.push(match t {
                    Ok(t) => json!({"k": k, "lower": t.lower_bound, "lo": t.interval.lower, "hi": t.interval.upper, "k_used": t.k_used,
                                    "fe": t.frontier_exhausted, "cap_hit": t.cap_hit, "mg": t.marginal_gain}),
                    Err(r) => json!({"k": k, "err": reason_str(&r)}),
                });
            }
            // cap = 0 and cap = 1 function-level
            for cap in [0usize, 1usize] {
                enums.push(json!({"cap": cap, "unexpired": enum_call(&built.store, &seeds, root, cap, None), "expiry": []}));
            }
            out["table"] = json!(table);
            out["enums"] = json!(enums);
            out["topk"] = json!(topks);

            // ---- compile_lineage_to_sdd_with_clock ----
            let (cu, cr) = compile_call(&built.store, &seeds, root, &cfg, Mode::Frozen);
            let mut cexp = Vec::new();
            for n in 0..=cr.min(max_n) {
                cexp.push(compile_call(&built.store, &seeds, root, &cfg, Mode::Sticky(n)).0);
            }
            out["compile"] = json!({"unexpired": cu, "readings": cr, "expiry": cexp});

            // ---- evaluate_hybrid_with_clock ----
            let store = Arc::new(Mutex::new(built.store));
            let seeds = Arc::new(seeds);
            let (u, readings) = run_eval(&store, &seeds, root, &cfg, Mode::Frozen);
            out["unexpired"] = u;
            out["readings"] = json!(readings);
            let tb = cfg.topk_budget.as_nanos() as u64;
            let top = readings.min(max_n);
            let mut sticky = Vec::new();
            let mut jump = Vec::new();
            let mut edge = Vec::new();
            for n in 0..=top {
                sticky.push(run_eval(&store, &seeds, root, &cfg, Mode::Sticky(n)).0);
                jump.push(run_eval(&store, &seeds, root, &cfg, Mode::Jump(n)).0);
                edge.push(run_eval(&store, &seeds, root, &cfg, Mode::Edge(n, tb)).0);
            }
            out["sticky"] = json!(sticky);
            out["jump"] = json!(jump);
            out["edge"] = json!(edge);
            if let Some(lists) = case["clocks"].as_array() {
                let mut res = Vec::new();
                for l in lists {
                    let vs: Vec<u64> = l.as_array().unwrap().iter().map(|x| x.as_u64().unwrap()).collect();
                    res.push(run_eval(&store, &seeds, root, &cfg, Mode::List(vs)).0);
                }
                out["lists"] = json!(res);
            }
            out
        }));
        match r {
            Ok(v) => v,
            Err(m) => json!({"panic": m}),
        }
    });
}
