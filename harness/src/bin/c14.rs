//! C14 driver: export -> import round trips of the real SparqlDatabase and function-level streams of the
//! private codec functions (reached through the add-only `verif_c14_*` hooks in sparql_database.rs).
//!
//! Case shapes (one JSON object per line):
//!   {"op":"rt","quads":[[S,P,O,G],...]}   term = "bare string" | {"q":[S,P,O]} (quoted triple), G = null | "bare"
//!       builds the database with the direct API (dictionary / quoted-triple store / add_quad: terms are stored
//!       verbatim), exports it as N-Quads, N-Triples and Turtle, loads each text into an empty database and
//!       reports the decoded (lexical) quads.
//!   {"op":"load","fmt":"nq"|"nt"|"ttl","text":"..."}   loads a document into an empty database
//!   {"op":"fn","f":"escape"|"decode"|"iri"|"parts"|"clean_nt"|"nq_line"|"nt_line"|"tok_ttl"|"clean_ttl"|"ets"|"split_qt"|"resolve","x":"..."}
use kolibrie::sparql_database::{self as sd, SparqlDatabase};
use serde_json::{json, Value};
use shared::dataset_index::{GraphId, Quad};
use std::collections::HashMap;

fn enc_term(db: &SparqlDatabase, t: &Value) -> u32 {
    if let Some(s) = t.as_str() {
        db.dictionary.write().unwrap().encode(s)
    } else {
        let a = t["q"].as_array().expect("quoted triple");
        let s = enc_term(db, &a[0]);
        let p = enc_term(db, &a[1]);
        let o = enc_term(db, &a[2]);
        db.quoted_triple_store.write().unwrap().encode(s, p, o)
    }
}

fn dec(db: &SparqlDatabase, id: u32) -> Value {
    match db.decode_any(id) {
        Some(s) => Value::String(s),
        None => json!({"undecodable": id}),
    }
}

fn quad_out(db: &SparqlDatabase, q: &Quad) -> Value {
    let g = match q.graph {
        GraphId::Default => Value::Null,
        GraphId::Named(g) => dec(db, g),
    };
    json!([dec(db, q.subject), dec(db, q.predicate), dec(db, q.object), g])
}

fn all_quads(db: &SparqlDatabase) -> Vec<Value> {
    db.dataset_index.all_quads().iter().map(|q| quad_out(db, q)).collect()
}

fn default_triples(db: &SparqlDatabase) -> Vec<Value> {
    db.query_default_triples(None, None, None)
        .iter()
        .map(|t| json!([dec(db, t.subject), dec(db, t.predicate), dec(db, t.object), Value::Null]))
        .collect()
}

fn sorted(mut v: Vec<Value>) -> Vec<Value> {
    v.sort_by_key(|x| serde_json::to_string(x).unwrap());
    v.dedup();
    v
}

fn load(fmt: &str, text: &str) -> Result<Vec<Value>, String> {
    let fmt = fmt.to_string();
    let text = text.to_string();
    vharness::catch(move || {
        let mut db = SparqlDatabase::new();
        match fmt.as_str() {
            "nq" => db.parse_nquads_and_add(&text),
            "nt" => {
                let parsed = db.parse_ntriples(&text);
                let enc = db.encode_triples(parsed);
                for t in enc {
                    db.add_triple(t);
                }
            }
            "ttl" => db.parse_turtle(&text),
            other => panic!("unknown format {}", other),
        }
        sorted(all_quads(&db))
    })
}

fn load_out(fmt: &str, text: &str) -> Value {
    match load(fmt, text) {
        Ok(q) => json!({"quads": q}),
        Err(m) => json!({"panic": m}),
    }
}

fn main() {
    vharness::quiet_panics();
    vharness::run_cases(|case| {
        let op = case["op"].as_str().unwrap_or("");
        match op {
            "rt" => {
                let quads = case["quads"].as_array().cloned().unwrap_or_default();
                let prefixes: HashMap<String, String> = case["prefixes"]
                    .as_object()
                    .map(|m| m.iter().map(|(k, v)| (k.clone(), v.as_str().unwrap_or("").to_string())).collect())
                    .unwrap_or_default();
                let built = vharness::catch(move || {
                    let mut db = SparqlDatabase::new();
                    db.prefixes = prefixes;
                    for q in &quads {
                        let a = q.as_array().unwrap();
                        let s = enc_term(&db, &a[0]);
                        let p = enc_term(&db, &a[1]);
                        let o = enc_term(&db, &a[2]);
                        let g = match a[3].as_str() {
                            None => GraphId::Default,
                            Some(g) => GraphId::Named(db.dictionary.write().unwrap().encode(g)),
                        };
                        db.add_quad(Quad { subject: s, predicate: p, object: o, graph: g });
                    }
                    let orig = all_quads(&db);
                    let orig_default = default_triples(&db);
                    let nq = db.generate_nquads();
                    let nt = db.generate_ntriples();
                    let ttl = db.generate_turtle();
                    (orig, orig_default, nq, nt, ttl)
                });
                match built {
                    Err(m) => json!({"panic": m, "stage": "export"}),
                    Ok((orig, orig_default, nq, nt, ttl)) => {
                        json!({
                            "orig": orig, "orig_default": orig_default,
                            "nq": nq, "nt": nt, "ttl": ttl,
                            "nq_back": load_out("nq", &nq),
                            "nt_back": load_out("nt", &nt),
                            "ttl_back": load_out("ttl", &ttl),
                        })
                    }
                }
            }
            "load" => load_out(case["fmt"].as_str().unwrap_or(""), case["text"].as_str().unwrap_or("")),
            "fn" => {
                let f = case["f"].as_str().unwrap_or("").to_string();
                let x = case["x"].as_str().unwrap_or("").to_string();
                let r = vharness::catch(move || {
                    let db = SparqlDatabase::new();
                    match f.as_str() {
                        "escape" => json!(sd::verif_c14_escape_ntriples_literal(&x)),
                        "decode" => match sd::verif_c14_decode_ntriples_literal(&x) {
                            Some((v, rest)) => json!([v, rest]),
                            None => Value::Null,
                        },
                        "iri" => json!(sd::verif_c14_looks_like_absolute_iri(&x)),
                        "parts" => json!(db.verif_c14_parse_ntriples_parts(&x)),
                        "clean_nt" => json!(db.verif_c14_clean_ntriples_term(&x)),
                        "nq_line" => match db.verif_c14_parse_nquads_line(&x) {
                            Some((s, p, o, g)) => json!([s, p, o, g]),
                            None => Value::Null,
                        },
                        "nt_line" => match db.verif_c14_parse_ntriples_line(&x) {
                            Some((s, p, o)) => json!([s, p, o]),
                            None => Value::Null,
                        },
                        "tok_ttl" => json!(SparqlDatabase::verif_c14_tokenize_turtle_star_line(&x)),
                        "clean_ttl" => json!(SparqlDatabase::verif_c14_clean_turtle_term(&x)),
                        "ets" => {
                            let id = db.encode_term_star(&x);
                            dec(&db, id)
                        }
                        "split_qt" => {
                            let (s, p, o) = SparqlDatabase::split_quoted_triple_content(&x);
                            json!([s, p, o])
                        }
                        "resolve" => json!(db.resolve_query_term(&x, &HashMap::new())),
                        other => panic!("unknown function {}", other),
                    }
                });
                match r {
                    Ok(v) => json!({"out": v}),
                    Err(m) => json!({"panic": m}),
                }
            }
            _ => json!({"error": "unknown op"}),
        }
    });
}
