//! C13 driver: loads documents into a real SparqlDatabase and reports the lexical quad set
//! (decode_any over DatasetIndex::all_quads) after selected operations; plus function-level
//! entry points for the line tokenizers (through the add-only `verif_c13_*` hooks).
//!
//! Case kinds:
//!   {"kind":"db","ops":[ ["add",s,p,o,g|null,obs] | ["load",fmt,text,obs] ... ]}
//!        add  = Dictionary::encode of the four bare strings + add_quad (no term cleaning)
//!        load = parse_ntriples_and_add | parse_nquads_and_add | parse_turtle | parse_n3 | parse_rdf
//!        obs  = true: report the lexical quad set after this operation
//!   {"kind":"nt_chunks","text":t}      parse_ntriples(t): the per-chunk parsed string triples
//!   {"kind":"parts","arg":line}        parse_ntriples_parts
//!   {"kind":"clean","arg":term}        clean_ntriples_term
//!   {"kind":"declit","arg":term}       decode_ntriples_literal
//!   {"kind":"ttl_tokens","arg":line}   tokenize_turtle_star_line
//!   {"kind":"ttl_clean","arg":term}    clean_turtle_term
//!   {"kind":"star","args":[terms]}     encode_term_star on each term in turn (fresh database), then decode_any
use kolibrie::sparql_database::SparqlDatabase;
use serde_json::{json, Value};
use shared::dataset_index::{GraphId, Quad};

fn den(db: &SparqlDatabase) -> Value {
    let mut out: Vec<Vec<Option<String>>> = Vec::new();
    for q in db.dataset_index.all_quads() {
        let g = match q.graph {
            GraphId::Default => Some("".to_string()),
            GraphId::Named(id) => db.dictionary.read().unwrap().decode(id).map(|s| format!("G{}", s)),
        };
        out.push(vec![db.decode_any(q.subject), db.decode_any(q.predicate), db.decode_any(q.object), g]);
    }
    out.sort();
    out.dedup();
    json!(out)
}

fn main() {
    vharness::quiet_panics();
    vharness::run_cases(|case| {
        let case = case.clone();
        let kind = case["kind"].as_str().unwrap_or("db").to_string();
        let r = vharness::catch(move || match kind.as_str() {
            "db" => {
                let mut db = SparqlDatabase::new();
                let mut dens: Vec<Value> = Vec::new();
                for op in case["ops"].as_array().unwrap() {
                    let a = op.as_array().unwrap();
                    let obs;
                    match a[0].as_str().unwrap() {
                        "add" => {
                            let (s, p, o, g) = {
                                let mut d = db.dictionary.write().unwrap();
                                let s = d.encode(a[1].as_str().unwrap());
                                let p = d.encode(a[2].as_str().unwrap());
                                let o = d.encode(a[3].as_str().unwrap());
                                let g = match a[4].as_str() {
                                    None => GraphId::Default,
                                    Some(gs) => GraphId::Named(d.encode(gs)),
                                };
                                (s, p, o, g)
                            };
                            db.add_quad(Quad { subject: s, predicate: p, object: o, graph: g });
                            obs = a[5].as_bool().unwrap_or(false);
                        }
                        "load" => {
                            let text = a[2].as_str().unwrap();
                            match a[1].as_str().unwrap() {
                                "nt" => db.parse_ntriples_and_add(text),
                                "nq" => db.parse_nquads_and_add(text),
                                "ttl" => db.parse_turtle(text),
                                "n3" => db.parse_n3(text),
                                "rdfxml" => db.parse_rdf(text),
                                other => panic!("unknown format {}", other),
                            }
                            obs = a[3].as_bool().unwrap_or(true);
                        }
                        other => panic!("unknown op {}", other),
                    }
                    if obs {
                        dens.push(den(&db));
                    }
                }
                json!({"dens": dens})
            }
            "nt_chunks" => {
                let mut db = SparqlDatabase::new();
                let chunks = db.parse_ntriples(case["text"].as_str().unwrap());
                let v: Vec<Vec<Vec<String>>> = chunks
                    .into_iter()
                    .map(|c| c.into_iter().map(|(s, p, o)| vec![s, p, o]).collect())
                    .collect();
                json!({"chunks": v})
            }
            "parts" => {
                let db = SparqlDatabase::new();
                json!({"list": db.verif_c13_parse_ntriples_parts(case["arg"].as_str().unwrap())})
            }
            "clean" => {
                let db = SparqlDatabase::new();
                json!({"str": db.verif_c13_clean_ntriples_term(case["arg"].as_str().unwrap())})
            }
            "declit" => {
                match kolibrie::sparql_database::verif_c13_decode_ntriples_literal(case["arg"].as_str().unwrap()) {
                    Some((v, rest)) => json!({"some": [v, rest]}),
                    None => json!({"none": true}),
                }
            }
            "ttl_tokens" => {
                json!({"list": SparqlDatabase::verif_c13_tokenize_turtle_star_line(case["arg"].as_str().unwrap())})
            }
            "ttl_clean" => {
                json!({"str": SparqlDatabase::verif_c13_clean_turtle_term(case["arg"].as_str().unwrap())})
            }
            "star" => {
                let db = SparqlDatabase::new();
                let mut outs: Vec<Option<String>> = Vec::new();
                for t in case["args"].as_array().unwrap() {
                    let id = db.encode_term_star(t.as_str().unwrap());
                    outs.push(db.decode_any(id));
                }
                json!({"decoded": outs})
            }
            other => panic!("unknown case kind {}", other),
        });
        match r {
            Ok(v) => v,
            Err(m) => json!({"panic": m}),
        }
    });
}
