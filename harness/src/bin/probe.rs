use kolibrie::sparql_database::SparqlDatabase;
use std::collections::BTreeSet;
fn den(db:&SparqlDatabase)->BTreeSet<(String,String,String)>{
  db.query_default_triples(None,None,None).into_iter().map(|t|(db.decode_any(t.subject).unwrap(),db.decode_any(t.predicate).unwrap(),db.decode_any(t.object).unwrap())).collect()
}
fn main() {
    let lits = ["plain","he said \"hi\"\\ \n end","tab\there","","a\\","\"","x\ry","ünï 😀", "semi; comma, dot. end", "a \\\" b", "< > ^^ @en", "1.5", "true"];
    let mut db = SparqlDatabase::new();
    for (i,l) in lits.iter().enumerate() { db.add_triple_parts(&format!("http://e/s{}",i%3), "http://e/p", l); }
    let want=den(&db);
    for fmt in ["nt","nq","ttl"] {
        let text = match fmt {"nt"=>db.generate_ntriples(),"nq"=>db.generate_nquads(),_=>db.generate_turtle()};
        let mut db2=SparqlDatabase::new();
        match fmt {"nt"=>db2.parse_ntriples_and_add(&text),"nq"=>db2.parse_nquads_and_add(&text),_=>db2.parse_turtle(&text)};
        let got=den(&db2);
        println!("{} roundtrip equal={} missing={:?} extra={:?}", fmt, got==want, want.difference(&got).collect::<Vec<_>>(), got.difference(&want).collect::<Vec<_>>());
    }
}
