use kolibrie::sparql_database::SparqlDatabase;
use kolibrie::execute_query::{execute_sparql_query, execute_sparql_update};
fn main() {
    for q in ["é", "SELECT ?x WHERE { ?x <p> ?y } é", "INSERT DATA { <a> <b> \"é\" } €", "SELECT ?x WHERE { ?x <p> \"é }", "SELECT é"] {
        let mut db = SparqlDatabase::new();
        let r = std::panic::catch_unwind(std::panic::AssertUnwindSafe(|| { let r = execute_sparql_query(q, &mut db); r.is_ok() }));
        println!("query {:?} -> {:?}", q, r.map_err(|_| "PANIC"));
        let mut db = SparqlDatabase::new();
        let r = std::panic::catch_unwind(std::panic::AssertUnwindSafe(|| { let r = execute_sparql_update(q, &mut db); r.is_ok() }));
        println!("update {:?} -> {:?}", q, r.map_err(|_| "PANIC"));
    }
}
