//! C10 driver: one single-window continuous query, built from RSP-QL text through `RSPBuilder`, run on the
//! same in-order stream
//!   * by a probe `CSPARQLWindow` with identical parameters (reports the window contents of every firing,
//!     so the window operator itself - property C09 - is not re-modelled),
//!   * by the real `RSPEngine` in `OperationMode::SingleThread` (rows grouped by the call that produced them),
//!   * by the real `RSPEngine` in `OperationMode::MultiThread`, once per schedule seed (rows grouped by the
//!     hook's processed-firings counter; quiescence = the engine was dropped and the worker left its loop).
//! Case: {"w","s","query": RSP-QL text, "rules": N3 text, "evs": [{"nt": line, "id": n, "ts": t}], "stop": bool,
//!        "seeds": [n...], "stream": name or null (null = legacy `add`),
//!        "lag_from": optional event index from which the worker is held back until everything was pushed}
//! Result: {"contents": [[k, [ids]]], "st": [[k, [row]]], "mt": [{"seed", "firings": [[row]], "late": n}]}
//!   k = index of the event whose arrival triggered the firing, or -1 for the flush done by `stop()`.
//!   row = [[var, value]...] sorted by var.
use kolibrie::rsp::s2r::{CSPARQLWindow, Report, ReportStrategy, Tick};
use kolibrie::rsp_engine::verif_hooks;
use kolibrie::rsp_engine::{OperationMode, QueryExecutionMode, RSPBuilder, RSPEngine, ResultConsumer, SimpleR2R};
use serde_json::{json, Value};
use shared::triple::Triple;
use std::sync::atomic::{AtomicBool, AtomicUsize, Ordering};
use std::sync::{Arc, Mutex};
use std::time::{Duration, Instant};

type Row = Vec<(String, String)>;
static PANICKED: AtomicBool = AtomicBool::new(false);

#[derive(Clone)]
struct Ev {
    nt: String,
    id: u64,
    ts: usize,
}

fn events(case: &Value) -> Vec<Ev> {
    case["evs"]
        .as_array()
        .unwrap()
        .iter()
        .map(|e| Ev { nt: e["nt"].as_str().unwrap().to_string(), id: e["id"].as_u64().unwrap(), ts: e["ts"].as_u64().unwrap() as usize })
        .collect()
}

/// contents of every firing of a window with the same parameters on the same stream
fn probe(w: usize, s: usize, evs: &[Ev], stop: bool) -> Vec<(i64, Vec<u64>)> {
    let mut report = Report::new();
    report.add(ReportStrategy::OnWindowClose);
    let mut win: CSPARQLWindow<u64> = CSPARQLWindow::new(w, s, report, Tick::TimeDriven, "probe".to_string());
    let got: Arc<Mutex<Vec<Vec<u64>>>> = Arc::new(Mutex::new(Vec::new()));
    let g2 = Arc::clone(&got);
    win.register_callback(Box::new(move |c| {
        let mut v: Vec<u64> = c.iter().cloned().collect();
        v.sort();
        g2.lock().unwrap().push(v)
    }));
    let mut out = Vec::new();
    for (k, e) in evs.iter().enumerate() {
        win.add_to_window(e.id, e.ts);
        for c in got.lock().unwrap().drain(..) {
            out.push((k as i64, c));
        }
    }
    if stop {
        win.flush();
        win.stop();
        for c in got.lock().unwrap().drain(..) {
            out.push((-1, c));
        }
    }
    out
}

fn build(query: &str, rules: &str, mode: OperationMode, sink: Arc<Mutex<Vec<(usize, Row)>>>) -> Result<RSPEngine<Triple, Row>, String> {
    let consumer = ResultConsumer {
        function: Arc::new(move |r: Row| {
            let n = verif_hooks::firings_processed();
            sink.lock().unwrap().push((n, r));
        }),
    };
    let r2r = Box::new(SimpleR2R::with_execution_mode(QueryExecutionMode::Volcano));
    let mut b = RSPBuilder::new().add_rsp_ql_query(query).add_consumer(consumer).add_r2r(r2r).set_operation_mode(mode);
    if !rules.trim().is_empty() {
        b = b.add_rules(rules);
    }
    b.build()
}

fn feed(engine: &mut RSPEngine<Triple, Row>, stream: Option<&str>, t: Triple, ts: usize) {
    match stream {
        Some(s) => engine.add_to_stream(s, t, ts),
        None => engine.add(t, ts),
    }
}

fn rows_json(rows: Vec<Row>) -> Value {
    let mut rs: Vec<Vec<(String, String)>> = rows;
    rs.sort();
    json!(rs)
}

/// set once a run did not come back within its deadline: the thread (and its engine) is left behind, the hook
/// counters are no longer reliable, so the remaining cases of this process are not run
static ABORTED: AtomicBool = AtomicBool::new(false);

/// Run `f` on its own thread and wait for it at most `ms` milliseconds.  A (mutated) engine that blocks the calling
/// thread - a blocking send on a full bounded queue, a lock that is never released - cannot hang the driver: on
/// expiry every hold is released, None is returned and the thread is left behind.
fn with_deadline<T: Send + 'static>(ms: u64, f: impl FnOnce() -> T + Send + 'static) -> Option<T> {
    let (tx, rx) = std::sync::mpsc::channel();
    std::thread::spawn(move || {
        let _ = tx.send(f());
    });
    match rx.recv_timeout(Duration::from_millis(ms)) {
        Ok(v) => Some(v),
        Err(_) => {
            verif_hooks::hold_sites(0);
            ABORTED.store(true, Ordering::SeqCst);
            None
        }
    }
}

fn run_single(case: &Value, evs: &[Ev], stop: bool) -> Result<Value, String> {
    verif_hooks::reset();
    verif_hooks::set_schedule_seed(0);
    let sink: Arc<Mutex<Vec<(usize, Row)>>> = Arc::new(Mutex::new(Vec::new()));
    let mut engine = build(case["query"].as_str().unwrap(), case["rules"].as_str().unwrap_or(""), OperationMode::SingleThread, Arc::clone(&sink))?;
    let stream = case["stream"].as_str();
    let mut out: Vec<Value> = Vec::new();
    for (k, e) in evs.iter().enumerate() {
        for t in engine.parse_data(&e.nt) {
            feed(&mut engine, stream, t, e.ts);
        }
        let rows: Vec<Row> = sink.lock().unwrap().drain(..).map(|(_, r)| r).collect();
        out.push(json!([k as i64, rows_json(rows)]));
    }
    if stop {
        engine.stop();
        let rows: Vec<Row> = sink.lock().unwrap().drain(..).map(|(_, r)| r).collect();
        out.push(json!([-1, rows_json(rows)]));
    }
    Ok(json!(out))
}

/// splitmix64
fn mix(x: &mut u64) -> u64 {
    *x = x.wrapping_add(0x9E37_79B9_7F4A_7C15);
    let mut z = *x;
    z = (z ^ (z >> 30)).wrapping_mul(0xBF58_476D_1CE4_E5B9);
    z = (z ^ (z >> 27)).wrapping_mul(0x94D0_49BB_1331_11EB);
    z ^ (z >> 31)
}

fn run_multi(case: &Value, evs: &[Ev], stop: bool, expected: usize, seed: u64, timeout_ms: u64) -> Result<Value, String> {
    verif_hooks::reset();
    verif_hooks::set_schedule_seed(seed);
    // "lagging worker" schedule: from event index `lag_from` on the window worker is held at its yield points
    // (hook `hold_sites`, sites 1-2 = worker loop) until the producer has pushed every event (and called stop());
    // then it is released and has to work off everything that was queued meanwhile.  Deterministic: no timing.
    let lag_from: Option<usize> = case["lag_from"].as_u64().map(|v| v as usize);
    const WORKER_SITES: u64 = (1 << 1) | (1 << 2);
    if lag_from == Some(0) {
        verif_hooks::hold_sites(WORKER_SITES); // before the worker thread exists
    }
    let sink: Arc<Mutex<Vec<(usize, Row)>>> = Arc::new(Mutex::new(Vec::new()));
    let mut engine = match build(case["query"].as_str().unwrap(), case["rules"].as_str().unwrap_or(""), OperationMode::MultiThread, Arc::clone(&sink)) {
        Ok(e) => e,
        Err(e) => {
            verif_hooks::hold_sites(0);
            return Err(e);
        }
    };
    let stream = case["stream"].as_str();
    let mut prod = seed ^ 0x5151_5151;
    // The hold must not outlive the producer's ability to make progress: if the engine applies back-pressure (a
    // bounded queue with a blocking send) the producer stops while the worker is held.  A watchdog releases the hold
    // when no event has been pushed for `stall_ms`; the schedule is then "the worker lags as long as the producer can
    // run", which every engine must survive with the same emitted sequence.
    let progress = Arc::new(AtomicUsize::new(0));
    let feeding_done = Arc::new(AtomicBool::new(false));
    let released_by_watchdog = Arc::new(AtomicBool::new(false));
    if lag_from.is_some() {
        let (pr, dn, rl) = (Arc::clone(&progress), Arc::clone(&feeding_done), Arc::clone(&released_by_watchdog));
        let stall_ms: u64 = std::env::var("VERIF_HOLD_STALL_MS").ok().and_then(|v| v.parse().ok()).unwrap_or(2_000);
        std::thread::spawn(move || {
            let (mut last, mut since) = (pr.load(Ordering::SeqCst), Instant::now());
            while !dn.load(Ordering::SeqCst) {
                std::thread::sleep(Duration::from_millis(5));
                let p = pr.load(Ordering::SeqCst);
                if p != last {
                    last = p;
                    since = Instant::now();
                } else if since.elapsed() > Duration::from_millis(stall_ms) {
                    if !dn.load(Ordering::SeqCst) {
                        verif_hooks::hold_sites(0);
                        rl.store(true, Ordering::SeqCst);
                    }
                    break;
                }
            }
        });
    }
    for (k, e) in evs.iter().enumerate() {
        progress.store(k + 1, Ordering::SeqCst);
        if lag_from == Some(k) {
            verif_hooks::hold_sites(WORKER_SITES);
        }
        for t in engine.parse_data(&e.nt) {
            feed(&mut engine, stream, t, e.ts);
        }
        // producer-side perturbation: sometimes let the worker catch up, sometimes run ahead
        if seed != 0 {
            match mix(&mut prod) % 8 {
                0 => std::thread::yield_now(),
                1 => std::thread::sleep(Duration::from_micros(50 + mix(&mut prod) % 400)),
                2 => {
                    // wait until the worker has drained what was produced so far (bounded)
                    let t0 = Instant::now();
                    while t0.elapsed() < Duration::from_millis(2) {
                        std::thread::yield_now();
                    }
                }
                _ => {}
            }
        }
    }
    // every event has been pushed: release a held worker BEFORE stop() - the flush may use a blocking send, and a
    // worker that is held forever would then block the producer forever
    feeding_done.store(true, Ordering::SeqCst);
    let queued_at_release = expected.saturating_sub(verif_hooks::firings_processed());
    verif_hooks::hold_sites(0);
    if stop {
        engine.stop();
    }
    // Quiescence without sleeping on a guess: dropping the engine drops the window and with it the sender
    // of the content channel; the detached worker drains what was sent, leaves its loop and the hook counts
    // the exit.  From then on the processed-firings counter and the sink are final.
    drop(engine);
    let t0 = Instant::now();
    let mut timed_out = false;
    while verif_hooks::workers_exited() < 1 {
        if PANICKED.load(Ordering::SeqCst) {
            break;
        }
        if t0.elapsed() > Duration::from_millis(timeout_ms) {
            timed_out = true;
            break;
        }
        std::thread::sleep(Duration::from_micros(100));
    }
    let processed = verif_hooks::firings_processed();
    let got: Vec<(usize, Row)> = sink.lock().unwrap().drain(..).collect();
    let mut firings: Vec<Vec<Row>> = vec![Vec::new(); processed.max(expected)];
    let mut late = 0usize;
    for (n, r) in got {
        if n < firings.len() {
            firings[n].push(r);
        } else {
            late += 1;
        }
    }
    let panicked = PANICKED.swap(false, Ordering::SeqCst);
    Ok(json!({"seed": seed, "lag_from": lag_from, "queued_at_release": queued_at_release,
              "hold_released_by_watchdog": released_by_watchdog.load(Ordering::SeqCst), "firings": firings.into_iter().map(rows_json).collect::<Vec<_>>(), "processed": processed,
              "late": late, "timeout": timed_out, "worker_panicked": panicked}))
}

fn main() {
    // a panic in a detached worker thread is recorded (it is behaviour, not an infrastructure failure)
    std::panic::set_hook(Box::new(|_| {
        PANICKED.store(true, Ordering::SeqCst);
    }));
    let timeout_ms: u64 = std::env::var("VERIF_QUIESCE_TIMEOUT_MS").ok().and_then(|v| v.parse().ok()).unwrap_or(60_000);
    vharness::run_cases(|case| {
        let w = case["w"].as_u64().unwrap() as usize;
        let s = case["s"].as_u64().unwrap() as usize;
        let stop = case["stop"].as_bool().unwrap_or(false);
        let evs = events(case);
        let contents = probe(w, s, &evs, stop);
        let expected = contents.len();
        if ABORTED.load(Ordering::SeqCst) {
            return json!({"blocked": true, "where": "not run: an earlier run of this driver process did not come back"});
        }
        let run_deadline_ms = 2 * timeout_ms;
        let (c1, e1) = (case.clone(), evs.clone());
        let st = match with_deadline(run_deadline_ms, move || vharness::catch(std::panic::AssertUnwindSafe(|| run_single(&c1, &e1, stop)))) {
            Some(Ok(Ok(v))) => v,
            Some(Ok(Err(e))) => return json!({"build_error": e}),
            Some(Err(m)) => return json!({"panic": m, "where": "single-thread"}),
            None => return json!({"blocked": true, "where": "single-thread run did not come back within the deadline"}),
        };
        PANICKED.store(false, Ordering::SeqCst);
        let mut mt: Vec<Value> = Vec::new();
        for sd in case["seeds"].as_array().cloned().unwrap_or_default() {
            let seed = sd.as_u64().unwrap();
            let (c1, e1) = (case.clone(), evs.clone());
            match with_deadline(run_deadline_ms, move || {
                vharness::catch(std::panic::AssertUnwindSafe(|| run_multi(&c1, &e1, stop, expected, seed, timeout_ms)))
            }) {
                Some(Ok(Ok(v))) => mt.push(v),
                Some(Ok(Err(e))) => return json!({"build_error": e}),
                Some(Err(m)) => return json!({"panic": m, "where": "multi-thread"}),
                None => return json!({"blocked": true, "where": format!("multi-thread run (seed {}) did not come back within the deadline", seed)}),
            }
        }
        verif_hooks::set_schedule_seed(0);
        json!({"contents": contents, "st": st, "mt": mt})
    });
}
