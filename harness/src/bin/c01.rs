//! C01 driver.  One case = a dataset (default + named graphs, lexical strings) and a SELECT text.
//! Reports, each on a freshly built database:
//!   - the rows returned by `execute_sparql_query` and by `execute_query_rayon_parallel2_volcano`;
//!   - (with "plan": true) the logical plan produced by the lowering, the physical plan the optimizer
//!     picks on the same statistics path as `execute_select`, the dataset view, and the solution
//!     sequence that plan produces before the SELECT modifiers (for the model correspondence).
include!("c01_shared.inc");

fn main() {
    vharness::quiet_panics();
    vharness::run_cases(|case| {
        let ds = &case["ds"];
        let text = case["query"].as_str().unwrap_or("").to_string();
        let mut out = serde_json::Map::new();
        for entry in ["query", "volcano"] {
            let mut db = build_db(ds);
            out.insert(entry.to_string(), run_entry(&mut db, &text, entry));
        }
        if case["plan"].as_bool().unwrap_or(false) {
            let mut db = build_db(ds);
            match plan_query(&mut db, &text) {
                Err(e) => {
                    out.insert("plan_err".to_string(), json!(e));
                }
                Ok(pl) => {
                    out.insert("logical".to_string(), lop_json(&db, &pl.logical));
                    out.insert("view".to_string(), view_json(&db, &pl.view));
                    let stats = db.get_or_build_stats();
                    match optimize(stats, &pl.view, &pl.logical) {
                        Err(m) => {
                            out.insert("plan_panic".to_string(), json!(m));
                        }
                        Ok(plan) => {
                            out.insert("physical".to_string(), pop_json(&db, &plan));
                            match exec_plan(&mut db, &plan, &pl.view) {
                                Ok(b) => {
                                    out.insert("pattern_rows".to_string(), bindings_json(&db, &b));
                                }
                                Err(m) => {
                                    out.insert("exec_panic".to_string(), json!(m));
                                }
                            }
                        }
                    }
                }
            }
        }
        Value::Object(out)
    });
}
