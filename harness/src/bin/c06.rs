//! C06 driver: runs one Datalog program with uncertain input facts through the real provenance
//! materialisation (`Reasoner::infer_new_facts_with_provenance`) under the four provenance modes of the
//! property (DNF model counting, SDD model counting, min-max, Boolean), each on a fresh Reasoner, and
//! reports what a user of the API can observe: the facts in the store afterwards, the returned new facts,
//! the probability recovered for every fact of the store, the seed numbering, the facts that carry an
//! explicit tag, and (DNF mode) the tag itself as a set of clauses.
//!
//! Case: {"dict":[strings in id order], "facts":[[s,p,o]..]   certain input facts (add_abox_triple),
//!        "seeds":[[s,p,o,num,den]..]                          uncertain input facts, probability num/den (add_tagged_triple),
//!        "rules":[{"prem":[atom..],"neg":[atom..],"concl":[atom..]}], "modes":["dnf","sdd","minmax","bool"]}
//!   atom = [term,term,term], term = ["v", n] (variable "X<n>") | ["c", id].
//! A second kind, {"kind":"dnfops", ...}, exercises DnfWmcProvenance's operations directly (function level):
//!   {"table":[[num,den]..], "a":formula, "b":formula} with formula = [[[var,pol]..]..]
//!   -> disjunction, conjunction, negate a, wmc of each (as f64).
//! Only public API of /repo is used (no hook needed).
use datalog::reasoning::Reasoner;
use serde_json::{json, Value};
use shared::provenance::{BooleanProvenance, DnfWmcProvenance, MinMaxProbability, Provenance, WmcClause, WmcFormula};
use shared::rule::Rule;
use shared::sdd::SddProvenance;
use shared::tag_store::TagStore;
use shared::terms::{Term, TriplePattern};
use shared::triple::Triple;

fn term(v: &Value) -> Term {
    let a = v.as_array().unwrap();
    match a[0].as_str().unwrap() {
        "v" => Term::Variable(format!("X{}", a[1].as_u64().unwrap())),
        "c" => Term::Constant(a[1].as_u64().unwrap() as u32),
        other => panic!("bad term tag {}", other),
    }
}
fn atom(v: &Value) -> TriplePattern {
    let a = v.as_array().unwrap();
    (term(&a[0]), term(&a[1]), term(&a[2]))
}
fn atoms(v: &Value) -> Vec<TriplePattern> {
    v.as_array().map(|l| l.iter().map(atom).collect()).unwrap_or_default()
}
fn rule(v: &Value) -> Rule {
    Rule { premise: atoms(&v["prem"]), negative_premise: atoms(&v["neg"]), filters: vec![], conclusion: atoms(&v["concl"]) }
}
fn tri(t: &Triple) -> [u64; 3] {
    [t.subject as u64, t.predicate as u64, t.object as u64]
}
fn sorted_triples(ts: &[Triple]) -> Vec<[u64; 3]> {
    let mut v: Vec<[u64; 3]> = ts.iter().map(tri).collect();
    v.sort();
    v
}

fn build(case: &Value) -> Result<Reasoner, String> {
    let mut r = Reasoner::new();
    let dict: Vec<String> = case["dict"].as_array().unwrap().iter().map(|s| s.as_str().unwrap().to_string()).collect();
    {
        let mut d = r.dictionary.write().unwrap();
        for (i, s) in dict.iter().enumerate() {
            let id = d.encode(s);
            if id as usize != i {
                return Err(format!("dictionary id {} for entry {}", id, i));
            }
        }
    }
    let name = |v: &Value| dict[v.as_u64().unwrap() as usize].clone();
    for f in case["facts"].as_array().unwrap() {
        let a = f.as_array().unwrap();
        r.add_abox_triple(&name(&a[0]), &name(&a[1]), &name(&a[2]));
    }
    for f in case["seeds"].as_array().unwrap() {
        let a = f.as_array().unwrap();
        let p = a[3].as_f64().unwrap() / a[4].as_f64().unwrap();
        r.add_tagged_triple(&name(&a[0]), &name(&a[1]), &name(&a[2]), p);
    }
    for ru in case["rules"].as_array().unwrap() {
        r.try_add_rule(rule(ru)).map_err(|e| format!("rule rejected: {}", e))?;
    }
    Ok(r)
}

/// Everything observable after one provenance run; `tagf` renders a tag (mode specific).
fn observe<P: Provenance>(r: &Reasoner, new: &[Triple], ts: &TagStore<P>, tagf: &dyn Fn(&P::Tag) -> Value) -> Value {
    let all = r.dataset_index.query(None, None, None);
    let mut probs: Vec<(Triple, f64, Value)> = all
        .iter()
        .map(|t| {
            let tag = ts.get_tag(t);
            (t.clone(), ts.provenance().recover_probability(&tag), tagf(&tag))
        })
        .collect();
    probs.sort_by(|a, b| a.0.cmp(&b.0));
    let mut explicit: Vec<Triple> = ts.iter().map(|(t, _)| t.clone()).collect();
    explicit.sort();
    json!({
        "all": sorted_triples(&all),
        "new": sorted_triples(new),
        "probs": probs.iter().map(|(t, p, _)| json!([t.subject, t.predicate, t.object, p])).collect::<Vec<_>>(),
        "tags": probs.iter().map(|(_, _, g)| g.clone()).collect::<Vec<_>>(),
        "seed_order": ts.seed_triples.iter().map(tri).collect::<Vec<_>>(),
        "explicit": sorted_triples(&explicit),
    })
}

fn formula_out(f: &WmcFormula) -> Value {
    let mut cs: Vec<Vec<(u32, bool)>> = f.iter().map(|c| c.iter().copied().collect()).collect();
    cs.sort();
    json!(cs.iter().map(|c| c.iter().map(|&(v, p)| json!([v, p])).collect::<Vec<_>>()).collect::<Vec<_>>())
}
fn formula_in(v: &Value) -> WmcFormula {
    v.as_array()
        .unwrap()
        .iter()
        .map(|c| {
            c.as_array().unwrap().iter().map(|l| (l[0].as_u64().unwrap() as u32, l[1].as_bool().unwrap())).collect::<WmcClause>()
        })
        .collect()
}

fn run_mode(case: &Value, mode: &str) -> Value {
    let mut r = match build(case) {
        Ok(r) => r,
        Err(e) => return json!({"rejected": e}),
    };
    match mode {
        "dnf" => {
            let (new, ts) = r.infer_new_facts_with_provenance(DnfWmcProvenance::new());
            observe(&r, &new, &ts, &|t: &WmcFormula| formula_out(t))
        }
        "sdd" => {
            let (new, ts) = r.infer_new_facts_with_provenance(SddProvenance::new());
            let mgr = ts.provenance().manager().clone();
            observe(&r, &new, &ts, &move |t: &shared::sdd::SddId| {
                // the Boolean function of the handle, as the manager's own list of models (partial assignments)
                let ms = mgr.lock().unwrap().enumerate_models(*t);
                let mut cs: Vec<Vec<(u32, bool)>> = ms.iter().map(|c| c.iter().copied().collect()).collect();
                cs.sort();
                json!(cs.iter().map(|c| c.iter().map(|&(v, p)| json!([v, p])).collect::<Vec<_>>()).collect::<Vec<_>>())
            })
        }
        "minmax" => {
            let (new, ts) = r.infer_new_facts_with_provenance(MinMaxProbability);
            observe(&r, &new, &ts, &|t: &f64| json!(t))
        }
        "bool" => {
            let (new, ts) = r.infer_new_facts_with_provenance(BooleanProvenance);
            observe(&r, &new, &ts, &|t: &bool| json!(t))
        }
        other => panic!("unknown mode {}", other),
    }
}

fn dnfops(case: &Value) -> Value {
    let p = DnfWmcProvenance::new();
    for (i, q) in case["table"].as_array().unwrap().iter().enumerate() {
        p.tag_from_probability_with_id(q[0].as_f64().unwrap() / q[1].as_f64().unwrap(), i);
    }
    let a = formula_in(&case["a"]);
    let b = formula_in(&case["b"]);
    let d = p.disjunction(&a, &b);
    let c = p.conjunction(&a, &b);
    let n = p.negate(&a);
    json!({
        "disj": formula_out(&d), "conj": formula_out(&c), "neg": formula_out(&n),
        "wmc_a": p.recover_probability(&a), "wmc_b": p.recover_probability(&b),
        "wmc_disj": p.recover_probability(&d), "wmc_conj": p.recover_probability(&c), "wmc_neg": p.recover_probability(&n),
        "eq": a == b,
    })
}

fn main() {
    vharness::quiet_panics();
    vharness::run_cases(|case| {
        if case["kind"].as_str() == Some("dnfops") {
            let c = case.clone();
            return match vharness::catch(move || dnfops(&c)) {
                Ok(v) => v,
                Err(m) => json!({"panic": m}),
            };
        }
        let modes: Vec<String> = case["modes"]
            .as_array()
            .map(|l| l.iter().map(|s| s.as_str().unwrap().to_string()).collect())
            .unwrap_or_else(|| vec!["dnf".into(), "sdd".into(), "minmax".into(), "bool".into()]);
        let mut out = serde_json::Map::new();
        for mode in modes {
            let c = case.clone();
            let m2 = mode.clone();
            let res = vharness::catch(move || run_mode(&c, &m2));
            out.insert(mode, match res { Ok(v) => v, Err(m) => json!({"panic": m}) });
        }
        Value::Object(out)
    });
}
