//! C02 driver.  One case = a dataset given as (before, update) parts and a SELECT text.
//!   1. the database is built from `before`, statistics are gathered and cached (`get_or_build_stats`), then the
//!      `update` quads are added through `add_quad` (which does not invalidate the cache): the cached statistics are stale;
//!   2. the query is parsed and lowered with the public API; for every requested statistics kind (fresh, stale, empty,
//!      zeros, huge, big, swapped) the real optimizer (`Streamertail::find_best_plan`) produces a plan, which is reported
//!      and executed (`ExecutionEngine::execute_with_ids_and_dataset`);
//!   3. the plan chosen under fresh statistics is rewritten with every assignment of {bind, hash, nested-loop} to its join
//!      nodes (all 3^k for k <= 5, a seeded sample beyond) and each rewritten plan is executed;
//!   4. `execute_sparql_query` is run on a database whose statistics cache is stale.
//! Every execution's solution multiset is canonicalised (rows and bindings sorted, ids decoded) and reported as an index
//! into the list of distinct multisets seen for the case.  Thread-pool size: RAYON_NUM_THREADS of the process.
include!("c01_shared.inc");

fn join_nodes(p: &PhysicalOperator) -> usize {
    match p {
        PhysicalOperator::BindJoin { left, right }
        | PhysicalOperator::HashJoin { left, right }
        | PhysicalOperator::NestedLoopJoin { left, right } => 1 + join_nodes(left) + join_nodes(right),
        PhysicalOperator::Union { branches } => branches.iter().map(join_nodes).sum(),
        PhysicalOperator::Graph { input, .. }
        | PhysicalOperator::Filter { input, .. }
        | PhysicalOperator::Projection { input, .. }
        | PhysicalOperator::Subquery { inner: input, .. }
        | PhysicalOperator::Bind { input, .. } => join_nodes(input),
        _ => 0,
    }
}

/// Rebuilds `p` with the i-th join node (pre-order) implemented by algorithm assign[i] (0 bind, 1 hash, 2 nested loop).
fn rewrite(p: &PhysicalOperator, assign: &[u8], next: &mut usize) -> PhysicalOperator {
    match p {
        PhysicalOperator::BindJoin { left, right }
        | PhysicalOperator::HashJoin { left, right }
        | PhysicalOperator::NestedLoopJoin { left, right } => {
            let a = assign[*next];
            *next += 1;
            let l = rewrite(left, assign, next);
            let r = rewrite(right, assign, next);
            match a {
                0 => PhysicalOperator::bind_join(l, r),
                1 => PhysicalOperator::hash_join(l, r),
                _ => PhysicalOperator::nested_loop_join(l, r),
            }
        }
        PhysicalOperator::Union { branches } => PhysicalOperator::union(branches.iter().map(|b| rewrite(b, assign, next)).collect()),
        PhysicalOperator::Graph { input, graph } => PhysicalOperator::graph(rewrite(input, assign, next), graph.clone()),
        PhysicalOperator::Filter { input, condition } => PhysicalOperator::filter(rewrite(input, assign, next), condition.clone()),
        PhysicalOperator::Projection { input, variables } => PhysicalOperator::projection(rewrite(input, assign, next), variables.clone()),
        PhysicalOperator::Subquery { inner, spec } => PhysicalOperator::subquery(rewrite(inner, assign, next), spec.clone()),
        PhysicalOperator::Bind { input, function_name, arguments, output_variable } => {
            PhysicalOperator::bind(rewrite(input, assign, next), function_name.clone(), arguments.clone(), output_variable.clone())
        }
        other => other.clone(),
    }
}

struct Results {
    keys: Vec<String>,
    rows: Vec<Value>,
}
impl Results {
    fn add(&mut self, db: &SparqlDatabase, b: &Bindings) -> usize {
        let mut rows: Vec<Vec<(String, String)>> = b
            .iter()
            .map(|r| {
                let mut kv: Vec<(String, String)> = r.iter().map(|(k, v)| (k.clone(), lex(db, *v))).collect();
                kv.sort();
                kv
            })
            .collect();
        rows.sort();
        let v = json!(rows);
        let key = v.to_string();
        if let Some(i) = self.keys.iter().position(|k| *k == key) {
            return i;
        }
        self.keys.push(key);
        self.rows.push(v);
        self.keys.len() - 1
    }
}

fn main() {
    vharness::quiet_panics();
    vharness::run_cases(|case| {
        let text = case["query"].as_str().unwrap_or("").to_string();
        let mut out = serde_json::Map::new();
        let mut db = build_db(&case["ds_before"]);
        let stale = Some(db.get_or_build_stats());
        add_data(&mut db, &case["ds_update"]);
        let pl = match plan_query(&mut db, &text) {
            Ok(p) => p,
            Err(e) => {
                out.insert("plan_err".to_string(), json!(e));
                return Value::Object(out);
            }
        };
        out.insert("logical".to_string(), lop_json(&db, &pl.logical));
        out.insert("view".to_string(), view_json(&db, &pl.view));
        let mut results = Results { keys: Vec::new(), rows: Vec::new() };
        let mut plans = serde_json::Map::new();
        let mut plan_result = serde_json::Map::new();
        let mut chosen: Option<PhysicalOperator> = None;
        let empty = Vec::new();
        for kind in case["kinds"].as_array().unwrap_or(&empty) {
            let kind = kind.as_str().unwrap();
            let stats = stats_variant(&db, kind, &stale);
            match optimize_memo(stats, &pl.view, &pl.logical) {
                Err(m) => {
                    plans.insert(kind.to_string(), json!({"panic": m}));
                }
                Ok((plan, memo_keys)) => {
                    if kind == "fresh" {
                        // the keys of the plan cache after optimizing this query, and the dictionary ids they mention
                        out.insert("memo_keys".to_string(), json!(memo_keys));
                        let mut ids = Vec::new();
                        plan_ids(&db, &pl.logical, &mut ids);
                        ids.sort();
                        ids.dedup();
                        out.insert("dict".to_string(), json!(ids));
                    }
                    plans.insert(kind.to_string(), pop_json(&db, &plan));
                    match exec_plan(&mut db, &plan, &pl.view) {
                        Ok(b) => {
                            let i = results.add(&db, &b);
                            plan_result.insert(kind.to_string(), json!(i));
                        }
                        Err(m) => {
                            plan_result.insert(kind.to_string(), json!({"panic": m}));
                        }
                    }
                    if kind == "fresh" {
                        chosen = Some(plan);
                    }
                }
            }
        }
        out.insert("plans".to_string(), Value::Object(plans));
        out.insert("plan_result".to_string(), Value::Object(plan_result));
        if let Some(plan) = chosen {
            let k = join_nodes(&plan);
            let total: u64 = 3u64.saturating_pow(k as u32);
            let max_assign = case["max_assign"].as_u64().unwrap_or(81);
            let mut assigns: Vec<Vec<u8>> = Vec::new();
            if k <= 5 && total <= 243 {
                for n in 0..total {
                    let mut a = Vec::with_capacity(k);
                    let mut m = n;
                    for _ in 0..k {
                        a.push((m % 3) as u8);
                        m /= 3;
                    }
                    assigns.push(a);
                }
            } else {
                // all-bind, all-hash, all-nested-loop, then a seeded sample
                for alg in 0..3u8 {
                    assigns.push(vec![alg; k]);
                }
                let mut s = case["seed"].as_u64().unwrap_or(1).wrapping_mul(6364136223846793005).wrapping_add(1442695040888963407);
                while (assigns.len() as u64) < max_assign {
                    let mut a = Vec::with_capacity(k);
                    for _ in 0..k {
                        s = s.wrapping_mul(6364136223846793005).wrapping_add(1442695040888963407);
                        a.push(((s >> 33) % 3) as u8);
                    }
                    assigns.push(a);
                }
            }
            let mut per_result: Vec<(usize, u64, String)> = Vec::new(); // (result index, count, first assignment)
            let mut panics: Vec<Value> = Vec::new();
            let mut rewritten_joins = 0u64;
            for a in &assigns {
                let mut next = 0usize;
                let p2 = rewrite(&plan, a, &mut next);
                rewritten_joins += k as u64;
                let name: String = a.iter().map(|x| match x { 0 => 'b', 1 => 'h', _ => 'n' }).collect();
                match exec_plan(&mut db, &p2, &pl.view) {
                    Ok(b) => {
                        let i = results.add(&db, &b);
                        if let Some(e) = per_result.iter_mut().find(|e| e.0 == i) {
                            e.1 += 1;
                        } else {
                            per_result.push((i, 1, name));
                        }
                    }
                    Err(m) => panics.push(json!([name, m])),
                }
            }
            out.insert("n_joins".to_string(), json!(k));
            out.insert("n_assignments".to_string(), json!(assigns.len()));
            out.insert("rewritten_joins".to_string(), json!(rewritten_joins));
            out.insert("assignment_results".to_string(), json!(per_result.iter().map(|e| json!([e.0, e.1, e.2])).collect::<Vec<_>>()));
            out.insert("assignment_panics".to_string(), json!(panics));
        }
        out.insert("results".to_string(), Value::Array(results.rows));
        // the public entry point on a database whose cached statistics are stale
        let mut db2 = build_db(&case["ds_before"]);
        let _ = db2.get_or_build_stats();
        add_data(&mut db2, &case["ds_update"]);
        out.insert("entry_stale".to_string(), run_entry(&mut db2, &text, "query"));
        Value::Object(out)
    });
}
