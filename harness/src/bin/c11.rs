//! C11 driver: one continuous query over several windows (optionally with static background data), built from
//! RSP-QL text through `RSPBuilder`, run on interleaved in-order streams
//!   * by one probe `CSPARQLWindow` per window with identical parameters, fed the same sub-stream (the content
//!     every window itself reported, per call),
//!   * by the real `RSPEngine` in SingleThread mode (emitted solutions grouped by the call that produced them),
//!   * by the real `RSPEngine` in MultiThread mode once per schedule seed (all emitted solutions, in order;
//!     quiescence = the engine was dropped, every worker and the coordinator left their loops - hook counters).
//! Case: {"windows": [{"w","s","stream"}], "query", "static": N-Triples text, "policy": "wait"|"steal"|"timeout_steal"|
//!        "timeout_drop", "evs": [{"stream","stream_arg","nt","id","ts"}], "stop": bool, "seeds": [n...]}
//!   "stream" is the canonical stream IRI (the probes route on exact equality of it - the specification of routing),
//!   "stream_arg" the spelling handed to add_to_stream (bare, `<...>`, or `:name`).
//!   * optionally ("lockstep": true) in MultiThread mode with the harness waiting for quiescence after every event.
//! Result: {"calls": [{"k", "firings": [[window index, [ids]]], "rows": [row]}], "mt": [{"seed","rows":[row],...}],
//!          "lockstep": {"calls": [[row]], "tail": [row]}}
use kolibrie::rsp::s2r::{CSPARQLWindow, Report, ReportStrategy, Tick};
use kolibrie::rsp_engine::verif_hooks;
use kolibrie::rsp_engine::{OperationMode, QueryExecutionMode, RSPBuilder, RSPEngine, ResultConsumer, SimpleR2R};
use serde_json::{json, Value};
use shared::query::{Fallback, SyncPolicy};
use shared::triple::Triple;
use std::sync::atomic::{AtomicBool, Ordering};
use std::sync::{Arc, Mutex};
use std::time::{Duration, Instant};

type Row = Vec<(String, String)>;
static PANICKED: AtomicBool = AtomicBool::new(false);

#[derive(Clone)]
struct Ev {
    stream: String,
    /// the string handed to add_to_stream (the stream IRI in one of its accepted spellings)
    stream_arg: String,
    nt: String,
    id: u64,
    ts: usize,
}
struct Win {
    w: usize,
    s: usize,
    stream: String,
}

fn events(case: &Value) -> Vec<Ev> {
    case["evs"]
        .as_array()
        .unwrap()
        .iter()
        .map(|e| Ev {
            stream: e["stream"].as_str().unwrap().to_string(),
            stream_arg: e["stream_arg"].as_str().unwrap_or(e["stream"].as_str().unwrap()).to_string(),
            nt: e["nt"].as_str().unwrap().to_string(),
            id: e["id"].as_u64().unwrap(),
            ts: e["ts"].as_u64().unwrap() as usize,
        })
        .collect()
}
fn windows(case: &Value) -> Vec<Win> {
    case["windows"]
        .as_array()
        .unwrap()
        .iter()
        .map(|w| Win { w: w["w"].as_u64().unwrap() as usize, s: w["s"].as_u64().unwrap() as usize, stream: w["stream"].as_str().unwrap().to_string() })
        .collect()
}
fn policy(case: &Value) -> SyncPolicy {
    let ms = case["timeout_ms"].as_u64().unwrap_or(5);
    match case["policy"].as_str().unwrap_or("wait") {
        "steal" => SyncPolicy::Steal,
        "timeout_steal" => SyncPolicy::Timeout { duration: Duration::from_millis(ms), fallback: Fallback::Steal },
        "timeout_drop" => SyncPolicy::Timeout { duration: Duration::from_millis(ms), fallback: Fallback::Drop },
        _ => SyncPolicy::Wait,
    }
}

/// per call (event index, or -1 for stop): the firings (window index, content) in window order
fn probe(wins: &[Win], evs: &[Ev], stop: bool) -> Vec<(i64, Vec<(usize, Vec<u64>)>)> {
    let mut probes: Vec<CSPARQLWindow<u64>> = Vec::new();
    let got: Arc<Mutex<Vec<(usize, Vec<u64>)>>> = Arc::new(Mutex::new(Vec::new()));
    for (i, w) in wins.iter().enumerate() {
        let mut report = Report::new();
        report.add(ReportStrategy::OnWindowClose);
        let mut win: CSPARQLWindow<u64> = CSPARQLWindow::new(w.w, w.s, report, Tick::TimeDriven, format!("probe{}", i));
        let g2 = Arc::clone(&got);
        win.register_callback(Box::new(move |c| {
            let mut v: Vec<u64> = c.iter().cloned().collect();
            v.sort();
            g2.lock().unwrap().push((i, v))
        }));
        probes.push(win);
    }
    let mut out = Vec::new();
    for (k, e) in evs.iter().enumerate() {
        for (i, w) in wins.iter().enumerate() {
            if w.stream == e.stream {
                probes[i].add_to_window(e.id, e.ts);
            }
        }
        out.push((k as i64, got.lock().unwrap().drain(..).collect()));
    }
    if stop {
        for p in probes.iter_mut() {
            p.flush();
            p.stop();
        }
        out.push((-1, got.lock().unwrap().drain(..).collect()));
    }
    out
}

fn build(case: &Value, mode: OperationMode, sink: Arc<Mutex<Vec<Row>>>) -> Result<RSPEngine<Triple, Row>, String> {
    let consumer = ResultConsumer { function: Arc::new(move |r: Row| sink.lock().unwrap().push(r)) };
    let r2r = Box::new(SimpleR2R::with_execution_mode(QueryExecutionMode::Volcano));
    let mut engine: RSPEngine<Triple, Row> = RSPBuilder::new()
        .add_rsp_ql_query(case["query"].as_str().unwrap())
        .add_consumer(consumer)
        .add_r2r(r2r)
        .set_operation_mode(mode)
        .set_sync_policy(policy(case))
        .build()?;
    let st = case["static"].as_str().unwrap_or("");
    if !st.trim().is_empty() {
        engine.add_static_ntriples(st);
    }
    Ok(engine)
}

fn rows_json(rows: Vec<Row>) -> Value {
    let mut rs = rows;
    rs.sort();
    json!(rs)
}

/// set once a run did not come back within its deadline: its thread and engine are left behind, the hook counters
/// are no longer reliable, so the remaining cases of this process are not run
static ABORTED: AtomicBool = AtomicBool::new(false);

/// Run `f` on its own thread and wait for it at most `ms` milliseconds, so that a (mutated) engine that blocks the
/// calling thread cannot hang the driver: on expiry every hold is released, None is returned, the thread is left behind.
fn with_deadline<T: Send + 'static>(ms: u64, f: impl FnOnce() -> T + Send + 'static) -> Option<T> {
    let (tx, rx) = std::sync::mpsc::channel();
    std::thread::spawn(move || {
        let _ = tx.send(f());
    });
    match rx.recv_timeout(Duration::from_millis(ms)) {
        Ok(v) => Some(v),
        Err(_) => {
            verif_hooks::hold_sites(0);
            ABORTED.store(true, Ordering::SeqCst);
            None
        }
    }
}

/// (solutions per call, number of window contents the engine's own windows handed to the processors per call)
fn run_single(case: &Value, evs: &[Ev], stop: bool) -> Result<(Vec<Value>, Vec<usize>), String> {
    verif_hooks::reset();
    verif_hooks::set_schedule_seed(0);
    let sink: Arc<Mutex<Vec<Row>>> = Arc::new(Mutex::new(Vec::new()));
    let mut engine = build(case, OperationMode::SingleThread, Arc::clone(&sink))?;
    let mut out: Vec<Value> = Vec::new();
    let mut fired: Vec<usize> = Vec::new();
    let mut seen = 0usize;
    for e in evs.iter() {
        for t in engine.parse_data(&e.nt) {
            engine.add_to_stream(&e.stream_arg, t, e.ts);
        }
        out.push(rows_json(sink.lock().unwrap().drain(..).collect()));
        let n = verif_hooks::processor_entered_count();
        fired.push(n - seen);
        seen = n;
    }
    if stop {
        engine.stop();
        out.push(rows_json(sink.lock().unwrap().drain(..).collect()));
        let n = verif_hooks::processor_entered_count();
        fired.push(n - seen);
    }
    Ok((out, fired))
}

fn mix(x: &mut u64) -> u64 {
    *x = x.wrapping_add(0x9E37_79B9_7F4A_7C15);
    let mut z = *x;
    z = (z ^ (z >> 30)).wrapping_mul(0xBF58_476D_1CE4_E5B9);
    z = (z ^ (z >> 27)).wrapping_mul(0x94D0_49BB_1331_11EB);
    z ^ (z >> 31)
}

fn run_multi(case: &Value, evs: &[Ev], stop: bool, nwin: usize, seed: u64, timeout_ms: u64) -> Result<Value, String> {
    // the coordinator thread exists iff there is more than one window or a static-data plan
    let ncoord = if case["coord"].as_bool().unwrap_or(true) { 1 } else { 0 };
    verif_hooks::reset();
    verif_hooks::set_schedule_seed(seed);
    // "lagging coordinator" schedule: the coordinator is held at its yield points (hook `hold_sites`, sites 3-4) until
    // every event has been pushed, so all window results queue up in the result channel and are taken as one batch
    let hold_coord = case["hold_coord"].as_bool().unwrap_or(false) && ncoord == 1;
    if hold_coord {
        verif_hooks::hold_sites((1 << 3) | (1 << 4));
    }
    let sink: Arc<Mutex<Vec<Row>>> = Arc::new(Mutex::new(Vec::new()));
    let mut engine = match build(case, OperationMode::MultiThread, Arc::clone(&sink)) {
        Ok(e) => e,
        Err(e) => {
            verif_hooks::hold_sites(0);
            return Err(e);
        }
    };
    let mut prod = seed ^ 0x1111_2222;
    for e in evs.iter() {
        for t in engine.parse_data(&e.nt) {
            engine.add_to_stream(&e.stream_arg, t, e.ts);
        }
        if seed != 0 {
            match mix(&mut prod) % 8 {
                0 => std::thread::yield_now(),
                1 => std::thread::sleep(Duration::from_micros(50 + mix(&mut prod) % 400)),
                2 => {
                    let t0 = Instant::now();
                    while t0.elapsed() < Duration::from_millis(2) {
                        std::thread::yield_now();
                    }
                }
                _ => {}
            }
        }
    }
    if stop {
        engine.stop();
    }
    verif_hooks::hold_sites(0);
    // dropping the engine closes every content channel and the engine's own result sender: the workers drain and
    // leave their loops, then the coordinator sees the result channel disconnected and leaves its loop
    drop(engine);
    let t0 = Instant::now();
    let mut timed_out = false;
    while verif_hooks::workers_exited() < nwin || verif_hooks::coordinators_exited() < ncoord {
        if PANICKED.load(Ordering::SeqCst) {
            break;
        }
        if t0.elapsed() > Duration::from_millis(timeout_ms) {
            timed_out = true;
            break;
        }
        std::thread::sleep(Duration::from_micros(100));
    }
    let rows: Vec<Row> = sink.lock().unwrap().drain(..).collect();
    let panicked = PANICKED.swap(false, Ordering::SeqCst);
    Ok(json!({"seed": seed, "rows": rows, "processed": verif_hooks::firings_processed(), "consumed": verif_hooks::coordinator_consumed_count(),
              "timeout": timed_out, "thread_panicked": panicked}))
}

/// MultiThread mode in lockstep: after every event wait (on the hook counters) until every firing produced so far
/// has been processed by its worker and consumed by the coordinator.  With one window per stream each firing then
/// reaches the coordinator as a batch of exactly one, so the emission sequence is deterministic and can be compared
/// with the coordinator model.  No stop(): the flush makes several windows fire at once (racing workers).
fn run_lockstep(case: &Value, evs: &[Ev], pr: &[(i64, Vec<(usize, Vec<u64>)>)], nwin: usize, timeout_ms: u64) -> Result<Value, String> {
    verif_hooks::reset();
    verif_hooks::set_schedule_seed(0);
    let ncoord = if case["coord"].as_bool().unwrap_or(true) { 1 } else { 0 };
    let sink: Arc<Mutex<Vec<Row>>> = Arc::new(Mutex::new(Vec::new()));
    let mut engine = build(case, OperationMode::MultiThread, Arc::clone(&sink))?;
    let mut out: Vec<Value> = Vec::new();
    let mut expected = 0usize;
    let mut timed_out = false;
    for (k, e) in evs.iter().enumerate() {
        for t in engine.parse_data(&e.nt) {
            engine.add_to_stream(&e.stream_arg, t, e.ts);
        }
        expected += pr[k].1.len();
        let t0 = Instant::now();
        while verif_hooks::firings_processed() < expected || verif_hooks::coordinator_consumed_count() < expected {
            if PANICKED.load(Ordering::SeqCst) {
                break;
            }
            if t0.elapsed() > Duration::from_millis(timeout_ms) {
                timed_out = true;
                break;
            }
            std::thread::sleep(Duration::from_micros(50));
        }
        out.push(rows_json(sink.lock().unwrap().drain(..).collect()));
        if timed_out || PANICKED.load(Ordering::SeqCst) {
            break;
        }
    }
    drop(engine);
    let t0 = Instant::now();
    while !timed_out && (verif_hooks::workers_exited() < nwin || verif_hooks::coordinators_exited() < ncoord) {
        if PANICKED.load(Ordering::SeqCst) {
            break;
        }
        if t0.elapsed() > Duration::from_millis(timeout_ms) {
            timed_out = true;
        }
        std::thread::sleep(Duration::from_micros(100));
    }
    let tail: Vec<Row> = sink.lock().unwrap().drain(..).collect();
    let panicked = PANICKED.swap(false, Ordering::SeqCst);
    Ok(json!({"calls": out, "tail": rows_json(tail), "timeout": timed_out, "thread_panicked": panicked}))
}

fn main() {
    std::panic::set_hook(Box::new(|_| {
        PANICKED.store(true, Ordering::SeqCst);
    }));
    let timeout_ms: u64 = std::env::var("VERIF_QUIESCE_TIMEOUT_MS").ok().and_then(|v| v.parse().ok()).unwrap_or(60_000);
    vharness::run_cases(|case| {
        let stop = case["stop"].as_bool().unwrap_or(false);
        let evs = events(case);
        let wins = windows(case);
        let pr = probe(&wins, &evs, stop);
        if ABORTED.load(Ordering::SeqCst) {
            return json!({"blocked": true, "where": "not run: an earlier run of this driver process did not come back"});
        }
        let run_deadline_ms = 2 * timeout_ms;
        let nwin = wins.len();
        let (c1, e1) = (case.clone(), evs.clone());
        let (st, st_fired) = match with_deadline(run_deadline_ms, move || vharness::catch(std::panic::AssertUnwindSafe(|| run_single(&c1, &e1, stop)))) {
            Some(Ok(Ok(v))) => v,
            Some(Ok(Err(e))) => return json!({"build_error": e}),
            Some(Err(m)) => return json!({"panic": m, "where": "single-thread"}),
            None => return json!({"blocked": true, "where": "single-thread run did not come back within the deadline"}),
        };
        PANICKED.store(false, Ordering::SeqCst);
        let calls: Vec<Value> = pr
            .iter()
            .zip(st.iter())
            .zip(st_fired.iter())
            .map(|(((k, firings), rows), nf)| json!({"k": k, "firings": firings, "rows": rows, "engine_firings": nf}))
            .collect();
        let mut mt: Vec<Value> = Vec::new();
        for sd in case["seeds"].as_array().cloned().unwrap_or_default() {
            let seed = sd.as_u64().unwrap();
            let (c1, e1) = (case.clone(), evs.clone());
            match with_deadline(run_deadline_ms, move || {
                vharness::catch(std::panic::AssertUnwindSafe(|| run_multi(&c1, &e1, stop, nwin, seed, timeout_ms)))
            }) {
                Some(Ok(Ok(v))) => mt.push(v),
                Some(Ok(Err(e))) => return json!({"build_error": e}),
                Some(Err(m)) => return json!({"panic": m, "where": "multi-thread"}),
                None => return json!({"blocked": true, "where": format!("multi-thread run (seed {}) did not come back within the deadline", seed)}),
            }
        }
        // lockstep waits for as many firings as the probe windows report; it is only meaningful (and only terminates)
        // when the engine's own windows fire exactly there - otherwise the single-thread comparison already shows it
        let same_firings = pr.iter().zip(st_fired.iter()).all(|((_, f), n)| f.len() == *n);
        let lock = if !same_firings {
            json!({"skipped": "the engine's windows do not fire where the probe windows fire"})
        } else if case["lockstep"].as_bool().unwrap_or(false) {
            let (c1, e1, p1) = (case.clone(), evs.clone(), pr.clone());
            match with_deadline(run_deadline_ms + timeout_ms, move || {
                vharness::catch(std::panic::AssertUnwindSafe(|| run_lockstep(&c1, &e1, &p1, nwin, timeout_ms)))
            }) {
                Some(Ok(Ok(v))) => v,
                Some(Ok(Err(e))) => return json!({"build_error": e}),
                Some(Err(m)) => return json!({"panic": m, "where": "multi-thread lockstep"}),
                None => return json!({"blocked": true, "where": "multi-thread lockstep run did not come back within the deadline"}),
            }
        } else {
            Value::Null
        };
        verif_hooks::set_schedule_seed(0);
        json!({"calls": calls, "mt": mt, "lockstep": lock})
    });
}
