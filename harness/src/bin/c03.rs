//! C03 driver: applies a history of SPARQL Update requests (valid, rejected and malformed ones
//! interleaved) to a real SparqlDatabase and reports, after every step, the outcome of the request
//! and the whole dataset (every quad of every graph plus the named-graph catalog) decoded to the
//! lexical forms held by the dictionary.
//!
//! Case:   {"init": [[s,p,o,g|null]..], "graphs": [g..], "dict": [lexical..], "ops": [op..]}
//!   op = {"e": "xu"|"su"|"hu"|"vol", "t": text}          string entry points
//!      | {"e": "ast", "form": "ID"|"DD"|"IW"|"DW"|"DIW"|"DWS", "del": [[s,p,o,g|null]..],
//!         "ins": [..], "where": "{ .. }"}                  executor entry point (hook), templates as lexemes
//! Terms of `init`/`graphs`/`dict` are dictionary strings (IRIs without <>, literals without quotes).
//! The process-global blank-node counter of the update executor is probed at the start of every
//! case; `kolibrie-update-@K-` in any input string stands for the K-th allocation after the probe
//! and every `kolibrie-update-N-` in the output is rewritten to `kolibrie-update-@(N-base)-`.
use kolibrie::execute_query::{
    execute_query_rayon_parallel2_volcano, execute_sparql_update, verif_c03_execute_update_operation,
};
use kolibrie::parser::parse_group_graph_pattern;
use kolibrie::sparql_database::SparqlDatabase;
use serde_json::{json, Value};
use shared::dataset_index::{GraphId, Quad};
use shared::query::{DeleteClause, GroupGraphPattern, InsertClause, LexicalQuadPattern, UpdateOperation};

const MARK: &str = "kolibrie-update-";

/// The current value of the executor's blank-node counter, read off the name it gives to a probe node.
/// None when the names no longer have the form `_:kolibrie-update-<n>-<label>` (then nothing is rewritten).
fn probe_base() -> Option<i64> {
    let mut db = SparqlDatabase::new();
    execute_sparql_update("INSERT DATA { _:p <urn:p> <urn:o> }", &mut db).ok()?;
    let q = db.dataset_index.all_quads();
    let s = db.decode_any(q.first()?.subject)?;
    let rest = s.strip_prefix("_:kolibrie-update-")?;
    rest.split('-').next()?.parse::<i64>().ok()
}

/// `kolibrie-update-@K-` -> `kolibrie-update-(base+K)-`
fn absolutize(s: &str, base: Option<i64>) -> String {
    let Some(base) = base else { return s.to_string() };
    let mut out = String::new();
    let mut rest = s;
    while let Some(pos) = rest.find(MARK) {
        out.push_str(&rest[..pos + MARK.len()]);
        rest = &rest[pos + MARK.len()..];
        if let Some(r) = rest.strip_prefix('@') {
            let end = r.find(|c: char| !(c.is_ascii_digit())).unwrap_or(r.len());
            if end > 0 {
                let k: i64 = r[..end].parse().unwrap();
                out.push_str(&(base + k).to_string());
                rest = &r[end..];
            }
        }
    }
    out.push_str(rest);
    out
}

/// `kolibrie-update-N-` -> `kolibrie-update-@(N-base)-`
fn relativize(s: &str, base: Option<i64>) -> String {
    let Some(base) = base else { return s.to_string() };
    let mut out = String::new();
    let mut rest = s;
    while let Some(pos) = rest.find(MARK) {
        out.push_str(&rest[..pos + MARK.len()]);
        rest = &rest[pos + MARK.len()..];
        let end = rest.find(|c: char| !(c.is_ascii_digit())).unwrap_or(rest.len());
        if end > 0 && end < 18 {
            let n: i64 = rest[..end].parse().unwrap();
            out.push('@');
            out.push_str(&(n - base).to_string());
            rest = &rest[end..];
        }
    }
    out.push_str(rest);
    out
}

fn enc(db: &SparqlDatabase, s: &str) -> u32 {
    db.dictionary.write().unwrap().encode(s)
}

/// A term of the case input: a dictionary string, or ["qt", s, p, o] for a quoted triple (nested).
fn enc_term(db: &SparqlDatabase, t: &Value, base: Option<i64>) -> u32 {
    match t {
        Value::String(s) => enc(db, &absolutize(s, base)),
        Value::Array(a) if a.len() == 4 && a[0] == "qt" => {
            let (s, p, o) = (enc_term(db, &a[1], base), enc_term(db, &a[2], base), enc_term(db, &a[3], base));
            db.quoted_triple_store.write().unwrap().encode(s, p, o)
        }
        other => panic!("bad term {}", other),
    }
}

/// Identifier -> dictionary string, or ["qt", s, p, o] for a quoted triple (structure, not the printed form).
fn dec(db: &SparqlDatabase, id: u32, base: Option<i64>) -> Value {
    if shared::quoted_triple_store::is_quoted_triple_id(id) {
        let parts = db.quoted_triple_store.read().unwrap().decode(id);
        return match parts {
            Some((s, p, o)) => json!(["qt", dec(db, s, base), dec(db, p, base), dec(db, o, base)]),
            None => json!({"undecodable": id}),
        };
    }
    match db.decode_any(id) {
        Some(s) => Value::String(relativize(&s, base)),
        None => json!({"undecodable": id}),
    }
}

fn prefixes(db: &SparqlDatabase) -> Value {
    let mut p: Vec<String> = db.prefixes.keys().cloned().collect();
    p.sort();
    json!(p)
}

fn snapshot(db: &SparqlDatabase, base: Option<i64>) -> (Value, Value) {
    let mut quads: Vec<Vec<Value>> = db
        .dataset_index
        .all_quads()
        .iter()
        .map(|q| {
            vec![
                dec(db, q.subject, base),
                dec(db, q.predicate, base),
                dec(db, q.object, base),
                match q.graph {
                    GraphId::Default => Value::Null,
                    GraphId::Named(g) => dec(db, g, base),
                },
            ]
        })
        .collect();
    quads.sort_by_key(|q| serde_json::to_string(q).unwrap());
    let mut graphs: Vec<Value> = db
        .dataset_index
        .graphs()
        .into_iter()
        .filter_map(|g| match g {
            GraphId::Default => None,
            GraphId::Named(g) => Some(dec(db, g, base)),
        })
        .collect();
    graphs.sort_by_key(|g| serde_json::to_string(g).unwrap());
    (json!(quads), json!(graphs))
}

fn lex_quads(v: &Value, base: Option<i64>) -> Vec<(String, String, String, Option<String>)> {
    v.as_array()
        .map(|a| {
            a.iter()
                .map(|q| {
                    let q = q.as_array().unwrap();
                    (
                        absolutize(q[0].as_str().unwrap(), base),
                        absolutize(q[1].as_str().unwrap(), base),
                        absolutize(q[2].as_str().unwrap(), base),
                        q.get(3).and_then(|g| g.as_str()).map(|g| absolutize(g, base)),
                    )
                })
                .collect()
        })
        .unwrap_or_default()
}

fn as_patterns(qs: &[(String, String, String, Option<String>)]) -> Vec<LexicalQuadPattern<'_>> {
    qs.iter()
        .map(|(s, p, o, g)| LexicalQuadPattern { graph: g.as_deref(), triple: (s.as_str(), p.as_str(), o.as_str()) })
        .collect()
}

fn run_ast(op: &Value, db: &mut SparqlDatabase, base: Option<i64>) -> Value {
    let del = lex_quads(&op["del"], base);
    let ins = lex_quads(&op["ins"], base);
    let where_text = absolutize(op["where"].as_str().unwrap_or("{ }"), base);
    let where_pattern: GroupGraphPattern<'_> = match parse_group_graph_pattern(&where_text) {
        Ok((rest, p)) if rest.trim().is_empty() => p,
        _ => return json!(["err", "driver: WHERE text of an ast op does not parse"]),
    };
    let delete = DeleteClause { quads: as_patterns(&del) };
    let insert = InsertClause { quads: as_patterns(&ins) };
    let operation = match op["form"].as_str().unwrap() {
        "ID" => UpdateOperation::InsertData(insert),
        "DD" => UpdateOperation::DeleteData(delete),
        "IW" => UpdateOperation::InsertWhere { insert, where_pattern },
        "DW" => UpdateOperation::DeleteWhere { delete, where_pattern },
        "DIW" => UpdateOperation::DeleteInsertWhere { delete, insert, where_pattern },
        "DWS" => UpdateOperation::DeleteWhereShorthand { delete, where_pattern },
        other => panic!("unknown form {}", other),
    };
    match verif_c03_execute_update_operation(&operation, db) {
        Ok(s) => json!(["ok", s.inserted_quads, s.deleted_quads]),
        Err(e) => json!(["err", e]),
    }
}

fn main() {
    vharness::quiet_panics();
    vharness::run_cases(|case| {
        let case = case.clone();
        let r = vharness::catch(move || {
            let base = probe_base();
            let mut db = SparqlDatabase::new();
            for q in case["init"].as_array().cloned().unwrap_or_default() {
                let q = q.as_array().unwrap().clone();
                let t = |i: usize| enc_term(&db, &q[i], base);
                let quad = Quad {
                    subject: t(0),
                    predicate: t(1),
                    object: t(2),
                    graph: match q.get(3) {
                        Some(g) if !g.is_null() => GraphId::Named(enc_term(&db, g, base)),
                        _ => GraphId::Default,
                    },
                };
                db.add_quad(quad);
            }
            for g in case["graphs"].as_array().cloned().unwrap_or_default() {
                let id = enc_term(&db, &g, base);
                db.dataset_index.create_graph(GraphId::Named(id));
            }
            for t in case["dict"].as_array().cloned().unwrap_or_default() {
                enc_term(&db, &t, base);
            }
            let (q0, g0) = snapshot(&db, base);
            let mut steps: Vec<Value> = vec![json!({"r": ["init"], "q": q0, "g": g0, "p": prefixes(&db)})];
            for op in case["ops"].as_array().cloned().unwrap_or_default() {
                let entry = op["e"].as_str().unwrap().to_string();
                let text = absolutize(op["t"].as_str().unwrap_or(""), base);
                // the database lives outside catch_unwind's closure so that the state after a panic is still observable
                let res = {
                    let dbr = std::panic::AssertUnwindSafe(&mut db);
                    vharness::catch(move || {
                        let dbr = dbr;
                        let db: &mut SparqlDatabase = dbr.0;
                        match entry.as_str() {
                            "xu" => match db.execute_update(&text) {
                                Ok(s) => json!(["ok", s.inserted_quads, s.deleted_quads]),
                                Err(e) => json!(["err", e]),
                            },
                            "su" => match execute_sparql_update(&text, db) {
                                Ok(s) => json!(["ok", s.inserted_quads, s.deleted_quads]),
                                Err(e) => json!(["err", e]),
                            },
                            "hu" => json!(["str", db.handle_update(&text)]),
                            "vol" => json!(["rows", execute_query_rayon_parallel2_volcano(&text, db).len()]),
                            "ast" => run_ast(&op, db, base),
                            other => panic!("unknown entry {}", other),
                        }
                    })
                };
                let r = match res {
                    Ok(v) => v,
                    Err(m) => json!(["panic", m]),
                };
                let (q, g) = snapshot(&db, base);
                steps.push(json!({"r": r, "q": q, "g": g, "p": prefixes(&db)}));
            }
            steps
        });
        match r {
            Ok(steps) => json!({"steps": steps}),
            Err(m) => json!({"panic": m}),
        }
    });
}
