//! C05 driver: runs one Datalog program under every forward-chaining strategy of the real Reasoner
//! (naive, semi-naive, parallel, provenance with BooleanProvenance), each on a fresh Reasoner, and
//! reports for each: the facts in the store afterwards, the returned new facts, and what a second
//! run on the same store returns.  Everything is sorted; the returned vectors keep multiplicities.
//!
//! Case (`"kind":"program"`): {"dict":[strings in id order], "facts":[[s,p,o]..],
//!   "rules":[{"prem":[atom..],"neg":[atom..],"filt":[filter..],"concl":[atom..]}], "strategies":[..]}
//!   atom = [term,term,term], term = ["v", n] (variable "X<n>") | ["c", id];
//!   filter = {"x":n,"op":">","num":z} | {"x":n,"op":"=","var":m}.
//! Case (`"kind":"join"`): function-level stream for shared::join_algorithm::perform_hash_join_for_rules:
//!   {"dict":[..], "premise":atom, "facts":[[s,p,o]..], "rows":[[[key,id]..]..]} with key = [0,x] variable,
//!   [1,c] "__const_subj_<c>", [2,c] "__const_obj_<c>"; output rows in the same encoding.
//!   optional "varnames": {"<n>": "name"} renames variable n for the real code only (the Spec is invariant under renaming).
//! Only public API of /repo is used (no hook needed).
use datalog::reasoning::Reasoner;
use serde_json::{json, Value};
use shared::dictionary::Dictionary;
use shared::join_algorithm::perform_hash_join_for_rules;
use shared::provenance::BooleanProvenance;
use shared::rule::{FilterCondition, Rule};
use shared::terms::{Term, TriplePattern};
use shared::triple::Triple;
use std::collections::BTreeMap;

thread_local! {
    /// optional per-case renaming of variable numbers to arbitrary variable names ("varnames": {"3": "__const_subj_0"})
    static VARNAMES: std::cell::RefCell<std::collections::HashMap<u64, String>> = std::cell::RefCell::new(std::collections::HashMap::new());
}
fn var_name(n: u64) -> String {
    VARNAMES.with(|m| m.borrow().get(&n).cloned()).unwrap_or_else(|| format!("X{}", n))
}
fn set_varnames(case: &Value) {
    VARNAMES.with(|m| {
        let mut m = m.borrow_mut();
        m.clear();
        if let Some(o) = case.get("varnames").and_then(|o| o.as_object()) {
            for (k, v) in o {
                m.insert(k.parse::<u64>().unwrap(), v.as_str().unwrap().to_string());
            }
        }
    });
}
fn term(v: &Value) -> Term {
    let a = v.as_array().unwrap();
    match a[0].as_str().unwrap() {
        "v" => Term::Variable(var_name(a[1].as_u64().unwrap())),
        "c" => Term::Constant(a[1].as_u64().unwrap() as u32),
        other => panic!("bad term tag {}", other),
    }
}
fn atom(v: &Value) -> TriplePattern {
    let a = v.as_array().unwrap();
    (term(&a[0]), term(&a[1]), term(&a[2]))
}
fn atoms(v: &Value) -> Vec<TriplePattern> {
    v.as_array().map(|l| l.iter().map(atom).collect()).unwrap_or_default()
}
fn filter(v: &Value) -> FilterCondition {
    let variable = var_name(v["x"].as_u64().unwrap());
    let operator = v["op"].as_str().unwrap().to_string();
    let value = if let Some(m) = v.get("var").and_then(|m| m.as_u64()) {
        var_name(m)
    } else {
        format!("{}", v["num"].as_i64().unwrap())
    };
    FilterCondition { variable, operator, value }
}
fn rule(v: &Value) -> Rule {
    Rule {
        premise: atoms(&v["prem"]),
        negative_premise: atoms(&v["neg"]),
        filters: v["filt"].as_array().map(|l| l.iter().map(filter).collect()).unwrap_or_default(),
        conclusion: atoms(&v["concl"]),
    }
}
fn triple(v: &Value) -> Triple {
    let a = v.as_array().unwrap();
    Triple { subject: a[0].as_u64().unwrap() as u32, predicate: a[1].as_u64().unwrap() as u32, object: a[2].as_u64().unwrap() as u32 }
}
fn out_triples(ts: &[Triple]) -> Value {
    let mut v: Vec<[u64; 3]> = ts.iter().map(|t| [t.subject as u64, t.predicate as u64, t.object as u64]).collect();
    v.sort();
    json!(v)
}

fn build(case: &Value) -> Result<Reasoner, String> {
    let mut r = Reasoner::new();
    {
        let mut d = r.dictionary.write().unwrap();
        for (i, s) in case["dict"].as_array().unwrap().iter().enumerate() {
            let id = d.encode(s.as_str().unwrap());
            if id as usize != i {
                return Err(format!("dictionary id {} for entry {}", id, i));
            }
        }
    }
    for f in case["facts"].as_array().unwrap() {
        r.insert_ground_triple(triple(f));
    }
    for ru in case["rules"].as_array().unwrap() {
        r.try_add_rule(rule(ru)).map_err(|e| format!("rule rejected: {}", e))?;
    }
    Ok(r)
}

fn run_strategy(r: &mut Reasoner, strat: &str) -> Vec<Triple> {
    match strat {
        "naive" => r.infer_new_facts_naive(),
        "semi" => r.infer_new_facts_semi_naive(),
        "par" => r.infer_new_facts_semi_naive_parallel(),
        "prov" => r.infer_new_facts_with_provenance(BooleanProvenance).0,
        other => panic!("unknown strategy {}", other),
    }
}

fn program_case(case: &Value) -> Value {
    let mut out = serde_json::Map::new();
    let strategies: Vec<String> = case["strategies"]
        .as_array()
        .map(|l| l.iter().map(|s| s.as_str().unwrap().to_string()).collect())
        .unwrap_or_else(|| vec!["naive".into(), "semi".into(), "par".into(), "prov".into()]);
    for strat in strategies {
        let c = case.clone();
        let s2 = strat.clone();
        let res = vharness::catch(move || {
            set_varnames(&c);
            let mut r = match build(&c) {
                Ok(r) => r,
                Err(e) => return json!({"rejected": e}),
            };
            let new = run_strategy(&mut r, &s2);
            let all = r.dataset_index.query(None, None, None);
            let again = run_strategy(&mut r, &s2);
            let all2 = r.dataset_index.query(None, None, None);
            json!({"all": out_triples(&all), "new": out_triples(&new), "again": out_triples(&again), "all2": out_triples(&all2)})
        });
        out.insert(strat, match res { Ok(v) => v, Err(m) => json!({"panic": m}) });
    }
    Value::Object(out)
}

fn key_name(k: &Value) -> String {
    let a = k.as_array().unwrap();
    let n = a[1].as_u64().unwrap();
    match a[0].as_u64().unwrap() {
        0 => format!("X{}", n),
        1 => format!("__const_subj_{}", n),
        2 => format!("__const_obj_{}", n),
        t => panic!("bad key tag {}", t),
    }
}
fn key_code(s: &str) -> Value {
    if let Some(n) = s.strip_prefix("__const_subj_") {
        json!([1, n.parse::<u64>().unwrap()])
    } else if let Some(n) = s.strip_prefix("__const_obj_") {
        json!([2, n.parse::<u64>().unwrap()])
    } else if let Some(n) = s.strip_prefix("X") {
        json!([0, n.parse::<u64>().unwrap()])
    } else {
        json!([9, s])
    }
}

fn join_case(case: &Value) -> Value {
    let c = case.clone();
    let res = vharness::catch(move || {
        let mut d = Dictionary::new();
        for s in c["dict"].as_array().unwrap() {
            d.encode(s.as_str().unwrap());
        }
        let prem = atom(&c["premise"]);
        let facts: Vec<Triple> = c["facts"].as_array().unwrap().iter().map(triple).collect();
        let rows: Vec<BTreeMap<String, String>> = c["rows"].as_array().unwrap().iter().map(|row| {
            row.as_array().unwrap().iter().map(|e| {
                let e = e.as_array().unwrap();
                (key_name(&e[0]), d.decode(e[1].as_u64().unwrap() as u32).unwrap().to_string())
            }).collect()
        }).collect();
        let out = perform_hash_join_for_rules(&prem, &facts, &d, rows);
        let rendered: Vec<Value> = out.iter().map(|row| {
            let mut es: Vec<(String, Value)> = row.iter().map(|(k, v)| {
                let id = d.string_to_id.get(v).copied().map(|x| json!(x)).unwrap_or(json!(null));
                (k.clone(), json!([key_code(k), id]))
            }).collect();
            es.sort_by(|a, b| a.0.cmp(&b.0));
            Value::Array(es.into_iter().map(|e| e.1).collect())
        }).collect();
        json!({"rows": rendered})
    });
    match res { Ok(v) => v, Err(m) => json!({"panic": m}) }
}

fn main() {
    vharness::quiet_panics();
    vharness::run_cases(|case| {
        match case["kind"].as_str().unwrap_or("program") {
            "join" => join_case(case),
            _ => program_case(case),
        }
    });
}
