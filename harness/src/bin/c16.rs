//! C16 driver: the query parser is total and faithful.
//!
//! Case kinds (field "k"):
//!   "scan"   function-level: {"f": scanner name, "s": input}            -> token / rest / error offsets
//!   "parse"  grammar-level:  {"entry": entry point name, "s": input}    -> canonical syntax tree
//!   "mut"    outcome enum of every string entry point on one input      -> {"<entry>": "Ok"|"Err"|"Panic"...}
//!   "class"  Unicode class bits of code points {"cps":[..]}
//! All offsets are byte offsets relative to the start of the given input (pointer arithmetic on the
//! returned slices), so "the rest is a suffix" and "the error slice is a suffix" are observable.
use kolibrie::execute_query::{execute_sparql_query, execute_sparql_update};
use kolibrie::parser::*;
use kolibrie::sparql_database::SparqlDatabase;
use kolibrie::streamertail_optimizer::utils::{verif_literal_lexical_value, verif_unescape_sparql_iri};
use nom::IResult;
use serde_json::{json, Value};
use shared::query::*;
use std::panic::AssertUnwindSafe;

fn off(base: &str, sub: &str) -> i64 {
    (sub.as_ptr() as i64) - (base.as_ptr() as i64)
}
fn inside(base: &str, sub: &str) -> bool {
    let o = off(base, sub);
    o >= 0 && (o as usize + sub.len()) <= base.len()
}
/// [offset, len] of a slice of `base` (offset -1 if the slice is not inside the input)
fn sl(base: &str, sub: &str) -> Value {
    // an empty slice that is not inside the input (e.g. the `""` literal `sparql_skip_ws` returns after a
    // trailing comment) is the empty suffix: the parser only ever uses its length
    if sub.is_empty() && !inside(base, sub) { return json!([base.len(), 0]); }
    if inside(base, sub) { json!([off(base, sub), sub.len()]) } else { json!([-1, sub.len()]) }
}
fn kind_code(k: nom::error::ErrorKind) -> &'static str {
    use nom::error::ErrorKind::*;
    match k {
        Eof => "Eof", Char => "Char", TakeWhile1 => "TakeWhile1", Escaped => "Escaped", Verify => "Verify",
        TakeUntil => "TakeUntil", Tag => "Tag", Digit => "Digit", Many1 => "Many1", Alt => "Alt",
        Many0 => "Many0", MultiSpace => "MultiSpace", Space => "Space", _ => "Other",
    }
}
fn err_json<T>(base: &str, e: nom::Err<nom::error::Error<&str>>) -> Result<T, Value> {
    Err(match e {
        nom::Err::Error(e) => json!({"err": [kind_code(e.code), sl(base, e.input)]}),
        nom::Err::Failure(e) => json!({"err": [kind_code(e.code), sl(base, e.input)], "failure": true}),
        nom::Err::Incomplete(_) => json!({"err": ["Incomplete", [0, 0]]}),
    })
}
fn lift<'a, T>(base: &'a str, r: IResult<&'a str, T>) -> Result<(&'a str, T), Value> {
    match r {
        Ok(v) => Ok(v),
        Err(e) => err_json(base, e),
    }
}

// ---- canonical trees ---------------------------------------------------------------------------
fn arith(a: &ArithmeticExpression) -> Value {
    match a {
        ArithmeticExpression::Operand(s) => json!(["Op", s]),
        ArithmeticExpression::Add(l, r) => json!(["Add", arith(l), arith(r)]),
        ArithmeticExpression::Subtract(l, r) => json!(["Sub", arith(l), arith(r)]),
        ArithmeticExpression::Multiply(l, r) => json!(["Mul", arith(l), arith(r)]),
        ArithmeticExpression::Divide(l, r) => json!(["Div", arith(l), arith(r)]),
    }
}
fn filter(f: &FilterExpression) -> Value {
    match f {
        FilterExpression::Comparison(l, o, r) => json!(["Cmp", l, o, r]),
        FilterExpression::And(l, r) => json!(["And", filter(l), filter(r)]),
        FilterExpression::Or(l, r) => json!(["Or", filter(l), filter(r)]),
        FilterExpression::Not(x) => json!(["Not", filter(x)]),
        FilterExpression::ArithmeticExpr(a) => json!(["Arith", arith(a)]),
        FilterExpression::FunctionCall(n, args) => json!(["Call", n, args]),
    }
}
fn values(v: &ValuesClause) -> Value {
    let rows: Vec<Value> = v.values.iter().map(|row| {
        Value::Array(row.iter().map(|x| match x { shared::query::Value::Term(t) => json!(t), shared::query::Value::Undef => Value::Null }).collect())
    }).collect();
    json!(["Values", v.variables, rows])
}
fn group(p: &GroupGraphPattern) -> Value {
    match p {
        GroupGraphPattern::Unit => json!(["Unit"]),
        GroupGraphPattern::Bgp(ts) => json!(["Bgp", ts.iter().map(|t| json!([t.0, t.1, t.2])).collect::<Vec<_>>()]),
        GroupGraphPattern::Join(ps) => json!(["Join", ps.iter().map(group).collect::<Vec<_>>()]),
        GroupGraphPattern::Union(ps) => json!(["Union", ps.iter().map(group).collect::<Vec<_>>()]),
        GroupGraphPattern::Graph { name, pattern } => json!(["Graph", name, group(pattern)]),
        GroupGraphPattern::Filter(f) => json!(["Filter", filter(f)]),
        GroupGraphPattern::Bind((f, args, v)) => json!(["Bind", f, args, v]),
        GroupGraphPattern::Values(v) => values(v),
        GroupGraphPattern::SubQuery(q) => json!(["SubQuery", select(&q.query)]),
    }
}
fn select(q: &SelectQuery) -> Value {
    json!({
        "distinct": q.distinct,
        "vars": q.variables.iter().map(|(k, v, a)| json!([k, v, a])).collect::<Vec<_>>(),
        "from": q.from,
        "from_named": q.from_named,
        "pattern": group(&q.pattern),
        "group": q.group_vars,
        "order": q.order_conditions.iter().map(|c| json!([c.variable, match c.direction { SortDirection::Asc => "Asc", SortDirection::Desc => "Desc" }])).collect::<Vec<_>>(),
        "limit": q.limit,
    })
}
fn quads(qs: &[LexicalQuadPattern]) -> Value {
    Value::Array(qs.iter().map(|q| json!([q.graph, q.triple.0, q.triple.1, q.triple.2])).collect())
}
fn update(u: &UpdateOperation) -> Value {
    match u {
        UpdateOperation::InsertData(c) => json!(["InsertData", quads(&c.quads)]),
        UpdateOperation::DeleteData(c) => json!(["DeleteData", quads(&c.quads)]),
        UpdateOperation::InsertWhere { insert, where_pattern } => json!(["InsertWhere", quads(&insert.quads), group(where_pattern)]),
        UpdateOperation::DeleteWhere { delete, where_pattern } => json!(["DeleteWhere", quads(&delete.quads), group(where_pattern)]),
        UpdateOperation::DeleteInsertWhere { delete, insert, where_pattern } => json!(["DeleteInsertWhere", quads(&delete.quads), quads(&insert.quads), group(where_pattern)]),
        UpdateOperation::DeleteWhereShorthand { delete, where_pattern } => json!(["DeleteWhereShorthand", quads(&delete.quads), group(where_pattern)]),
    }
}
fn combined(c: &CombinedQuery) -> Value {
    let mut pf: Vec<(String, String)> = c.prefixes.iter().map(|(k, v)| (k.clone(), v.clone())).collect();
    pf.sort();
    let op = match &c.sparql {
        Some(SparqlOperation::Select(q)) => json!(["Select", select(q)]),
        Some(SparqlOperation::Update(u)) => json!(["Update", update(u)]),
        None => Value::Null,
    };
    json!({
        "prefixes": pf.iter().map(|(k, v)| json!([k, v])).collect::<Vec<_>>(),
        "op": op,
        "ext": ext_summary(c),
    })
}
fn ext_summary(c: &CombinedQuery) -> Value {
    json!({
        "retrieve": c.retrieve_clause.is_some(), "register": c.register_clause.is_some(),
        "models": c.model_decls.len(), "neural": c.neural_relation_decls.len(), "train": c.train_neural_relation_decls.len(),
        "rule": c.rule.is_some(), "ml_predict": c.ml_predict.is_some(),
    })
}
fn has_extension(c: &CombinedQuery) -> bool {
    c.retrieve_clause.is_some() || c.register_clause.is_some() || !c.model_decls.is_empty()
        || !c.neural_relation_decls.is_empty() || !c.train_neural_relation_decls.is_empty() || c.rule.is_some() || c.ml_predict.is_some()
}

// ---- function-level scanners -------------------------------------------------------------------
fn scan(f: &str, s: &str) -> Value {
    let tok = |r: IResult<&str, &str>| -> Value {
        match lift(s, r) {
            Ok((rest, t)) => json!({"ok": {"tok": sl(s, t), "rest": sl(s, rest), "text": t}}),
            Err(e) => e,
        }
    };
    match f {
        "skip_ws" => { let r = verif_sparql_skip_ws(s); json!({"ok": {"rest": sl(s, r)}}) }
        "unicode_escape_len" => json!({"ok": {"n": verif_sparql_unicode_escape_len(s)}}),
        "invalid_pn_prefix" => match verif_sparql_invalid_pn_prefix(s) { None => json!({"ok": {"bad": Value::Null}}), Some(b) => json!({"ok": {"bad": sl(s, b)}}) },
        "unescape_iri" => json!({"ok": {"text": verif_unescape_sparql_iri(s)}}),
        "literal_value" => json!({"ok": {"text": verif_literal_lexical_value(s)}}),
        "identifier" => tok(identifier(s)),
        "parse_literal" => tok(parse_literal(s)),
        "parse_uri" => tok(parse_uri(s)),
        _ => {
            if let Some(kw) = f.strip_prefix("keyword:") {
                return tok(verif_sparql_keyword(s, kw));
            }
            match verif_sparql_scan(f, s) { Some(r) => tok(r), None => json!({"unknown": f}) }
        }
    }
}

// ---- grammar-level entries ---------------------------------------------------------------------
fn parse(entry: &str, s: &str) -> Value {
    macro_rules! fin {
        ($r:expr, $conv:expr) => {
            match lift(s, $r) { Ok((rest, t)) => json!({"ok": {"rest": sl(s, rest), "tree": $conv(&t)}}), Err(e) => e }
        };
    }
    match entry {
        "combined" => fin!(parse_combined_query(s), combined),
        "combined_alias" => fin!(parse_combined_query_with_options(s, true), combined),
        "select" => fin!(parse_sparql_query(s), select),
        "group" => fin!(parse_group_graph_pattern(s), group),
        "select_core" => fin!(verif_sparql_select_core(s, true), select),
        "select_core_sub" => fin!(verif_sparql_select_core(s, false), select),
        "update_core" => fin!(verif_sparql_update_core(s, false), update),
        "update_core_alias" => fin!(verif_sparql_update_core(s, true), update),
        "triples" => fin!(verif_sparql_triples_statement(s), |ts: &Vec<LexicalTriplePattern>| json!(ts.iter().map(|t| json!([t.0, t.1, t.2])).collect::<Vec<_>>())),
        "quad_block" => fin!(verif_sparql_quad_block(s), |qs: &Vec<LexicalQuadPattern>| quads(qs)),
        "filter" => fin!(parse_filter(s), filter),
        "bind" => fin!(parse_bind(s), |b: &(&str, Vec<&str>, &str)| json!(["Bind", b.0, b.1, b.2])),
        "values" => fin!(parse_values(s), values),
        "group_by" => fin!(parse_group_by(s), |v: &Vec<&str>| json!(v)),
        "order_by" => fin!(parse_order_by(s), |v: &Vec<OrderCondition>| json!(v.iter().map(|c| json!([c.variable, match c.direction { SortDirection::Asc => "Asc", SortDirection::Desc => "Desc" }])).collect::<Vec<_>>())),
        "limit" => fin!(parse_limit(s), |n: &usize| json!(n)),
        "prefix" => fin!(parse_prefix(s), |p: &(&str, &str)| json!([p.0, p.1])),
        "insert" => fin!(parse_insert(s), |c: &InsertClause| quads(&c.quads)),
        "delete" => fin!(parse_delete(s), |c: &DeleteClause| quads(&c.quads)),
        "select_clause" => fin!(parse_select(s), |v: &Vec<(&str, &str, Option<&str>)>| json!(v.iter().map(|(k, v, a)| json!([k, v, a])).collect::<Vec<_>>())),
        "rule" => fin!(parse_rule(s), |_r: &CombinedRule| json!("rule")),
        "standalone_rule" => fin!(parse_standalone_rule(s), |_r: &(CombinedRule, std::collections::HashMap<String, String>)| json!("rule")),
        "ml_predict" => fin!(parse_ml_predict(s), |_r: &MLPredictClause| json!("ml")),
        "model_decl" => fin!(parse_model_decl(s), |_r: &ModelDecl| json!("model")),
        "neural_decl" => fin!(parse_neural_relation_decl(s), |_r: &NeuralRelationDecl| json!("neural")),
        "train_decl" => fin!(parse_train_neural_relation_decl(s), |_r: &TrainNeuralRelationDecl| json!("train")),
        "register" => fin!(parse_register_clause(s), |_r: &RegisterClause| json!("register")),
        "retrieve" => fin!(parse_retrieve_clause(s), |_r: &RetrieveClause| json!("retrieve")),
        "window" => fin!(parse_from_named_window(s), |_r: &WindowClause| json!("window")),
        "where_legacy" => fin!(parse_where(s), |_r: &_| json!("where")),
        "triple_block" => fin!(parse_triple_block(s), |ts: &Vec<(&str, &str, &str)>| json!(ts.iter().map(|t| json!([t.0, t.1, t.2])).collect::<Vec<_>>())),
        _ => json!({"unknown": entry}),
    }
}

fn guarded<F: FnOnce() -> Value>(f: F) -> Value {
    match vharness::catch(AssertUnwindSafe(f)) {
        Ok(v) => v,
        Err(m) => json!({"panic": m}),
    }
}
fn outcome(v: &Value) -> Value {
    if v.get("panic").is_some() { json!(["Panic", v["panic"]]) }
    else if v.get("ok").is_some() { json!(["Ok", v["ok"]["rest"]]) }
    else if v.get("err").is_some() { json!(["Err", v["err"]]) }
    else { v.clone() }
}

const MUT_ENTRIES: &[&str] = &[
    "combined", "combined_alias", "select", "group", "rule", "standalone_rule", "ml_predict", "model_decl", "neural_decl",
    "train_decl", "register", "retrieve", "window", "where_legacy", "triple_block", "filter", "bind", "values", "prefix", "insert", "delete",
    "select_core", "update_core", "update_core_alias",
];

/// Outcome of every string entry point on one input.  The end-to-end entries run on a fresh empty
/// database; requests that declare ML models / neural relations / rules are parsed only (their
/// execution trains models or registers streams and is outside this property).
fn mutant(s: &str, entries: Option<&Vec<Value>>) -> Value {
    let mut out = serde_json::Map::new();
    let names: Vec<String> = match entries {
        Some(v) => v.iter().filter_map(|x| x.as_str().map(|y| y.to_string())).collect(),
        None => MUT_ENTRIES.iter().map(|x| x.to_string()).collect(),
    };
    for e in &names {
        if e == "exec_query" || e == "exec_update" { continue; }
        let v = guarded(|| parse(e, s));
        out.insert(e.clone(), outcome(&v));
    }
    // end-to-end (only if it cannot start ML/RSP machinery)
    let safe = guarded(|| match parse_combined_query(s) { Ok((_, c)) => json!(!has_extension(&c)), Err(_) => json!(true) });
    if safe == json!(true) && (entries.is_none() || names.iter().any(|x| x == "exec_query")) {
        let q = guarded(|| {
            let mut db = SparqlDatabase::new();
            match execute_sparql_query(s, &mut db) { Ok(rows) => json!({"ok": {"rest": [s.len(), 0], "rows": rows.len()}}), Err(_) => json!({"err": ["Msg", [0, 0]]}) }
        });
        out.insert("exec_query".into(), outcome(&q));
        let u = guarded(|| {
            let mut db = SparqlDatabase::new();
            match execute_sparql_update(s, &mut db) { Ok(_) => json!({"ok": {"rest": [s.len(), 0]}}), Err(_) => json!({"err": ["Msg", [0, 0]]}) }
        });
        out.insert("exec_update".into(), outcome(&u));
    }
    Value::Object(out)
}

fn classes(cps: &[Value]) -> Value {
    Value::Array(cps.iter().map(|c| {
        match char::from_u32(c.as_u64().unwrap() as u32) {
            None => Value::Null,
            Some(ch) => {
                let std_bits = (ch.is_alphabetic() as u32) | ((ch.is_numeric() as u32) << 1) | ((ch.is_whitespace() as u32) << 2) | ((ch.is_alphanumeric() as u32) << 3);
                json!([std_bits, verif_sparql_char_classes(ch)])
            }
        }
    }).collect())
}

fn main() {
    vharness::quiet_panics();
    vharness::run_cases(|case| {
        let k = case["k"].as_str().unwrap_or("");
        match k {
            "scan" => { let (f, s) = (case["f"].as_str().unwrap(), case["s"].as_str().unwrap()); guarded(|| scan(f, s)) }
            "parse" => { let (e, s) = (case["entry"].as_str().unwrap(), case["s"].as_str().unwrap()); guarded(|| parse(e, s)) }
            "mut" => mutant(case["s"].as_str().unwrap(), case["entries"].as_array()),
            "class" => classes(case["cps"].as_array().unwrap()),
            "e2e" => {
                // updates then one query on a fresh database: rows (sorted) or the error / panic
                let ups: Vec<String> = case["updates"].as_array().unwrap().iter().map(|x| x.as_str().unwrap().to_string()).collect();
                let q = case["query"].as_str().unwrap().to_string();
                guarded(move || {
                    let mut db = SparqlDatabase::new();
                    for u in &ups {
                        if let Err(e) = execute_sparql_update(u, &mut db) { return json!({"update_err": e}); }
                    }
                    match execute_sparql_query(&q, &mut db) {
                        Ok(mut rows) => { rows.sort(); json!({"rows": rows}) }
                        Err(e) => json!({"query_err": e}),
                    }
                })
            }
            _ => json!({"unknown": k}),
        }
    });
}
