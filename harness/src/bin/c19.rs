//! C19 driver: inconsistency-tolerant reasoning of the real `datalog::reasoning::Reasoner`.
//!
//! Case: {"facts":[[s,p,o]..], "cs":[[atom..]..], "goals":[atom..], "rules":[{"prem":[atom..],"concl":[atom..]}],
//!        "subsets":[[idx..]..], "reps":k}
//!   atom = [term,term,term], term = ["v", n] (variable "x<n>") | ["c", id] | ["q"] (a quoted-triple pattern).
//! For every case the driver runs, `reps` times, each time on freshly built hash sets / a fresh Reasoner
//! (std's RandomState gives every new HashSet its own keys, so the iteration orders differ between the
//! repetitions as well as between processes):
//!   - `verif_violates_constraints` on the whole fact set and on every listed subset    (hook)
//!   - `verif_compute_repairs` on the whole fact set                                     (hook)
//!   - `query_with_repairs` for every goal                                               (public API)
//!   - `infer_new_facts_semi_naive_with_repairs`, then the store content                  (public API)
//! and reports the DISTINCT canonical outcomes of each with their multiplicity:
//!   sets sorted, repairs as a sorted list of sorted sets, an answer list as the sorted list of bindings
//!   (multiplicities kept), a binding as the sorted list of [variable number, id].
//! `inferred_so_far` is reported in the order returned (it is the order of derivation).
use datalog::reasoning::Reasoner;
use serde_json::{json, Value};
use shared::rule::Rule;
use shared::terms::{Term, TriplePattern};
use shared::triple::Triple;
use std::collections::{HashMap, HashSet};

fn term(v: &Value) -> Term {
    let a = v.as_array().unwrap();
    match a[0].as_str().unwrap() {
        "v" => Term::Variable(format!("x{}", a[1].as_u64().unwrap())),
        "c" => Term::Constant(a[1].as_u64().unwrap() as u32),
        "q" => Term::QuotedTriple(Box::new((Term::Constant(0), Term::Constant(0), Term::Constant(0)))),
        other => panic!("bad term tag {}", other),
    }
}
fn atom(v: &Value) -> TriplePattern {
    let a = v.as_array().unwrap();
    (term(&a[0]), term(&a[1]), term(&a[2]))
}
fn atoms(v: &Value) -> Vec<TriplePattern> {
    v.as_array().map(|l| l.iter().map(atom).collect()).unwrap_or_default()
}
fn triple(v: &Value) -> Triple {
    let a = v.as_array().unwrap();
    Triple { subject: a[0].as_u64().unwrap() as u32, predicate: a[1].as_u64().unwrap() as u32, object: a[2].as_u64().unwrap() as u32 }
}
fn tnum(t: &Triple) -> [u64; 3] {
    [t.subject as u64, t.predicate as u64, t.object as u64]
}
fn set_out<'a, I: Iterator<Item = &'a Triple>>(it: I) -> Vec<[u64; 3]> {
    let mut v: Vec<[u64; 3]> = it.map(tnum).collect();
    v.sort();
    v
}
fn constraint(body: &Value) -> Rule {
    Rule { premise: atoms(body), negative_premise: vec![], filters: vec![], conclusion: vec![] }
}
fn build(case: &Value, with_rules: bool) -> Reasoner {
    let mut r = Reasoner::new();
    for f in case["facts"].as_array().unwrap() {
        r.insert_ground_triple(triple(f));
    }
    for c in case["cs"].as_array().unwrap() {
        r.add_constraint(constraint(c));
    }
    if with_rules {
        if let Some(rs) = case["rules"].as_array() {
            for ru in rs {
                r.add_rule(Rule { premise: atoms(&ru["prem"]), negative_premise: vec![], filters: vec![], conclusion: atoms(&ru["concl"]) });
            }
        }
    }
    r
}
fn binding_out(b: &HashMap<String, u32>) -> Vec<[u64; 2]> {
    let mut v: Vec<[u64; 2]> = b.iter().map(|(k, x)| [k[1..].parse::<u64>().unwrap(), *x as u64]).collect();
    v.sort();
    v
}

/// distinct values with multiplicities, in order of first appearance
fn tally(vals: Vec<Value>) -> Value {
    let mut out: Vec<(Value, u64)> = Vec::new();
    for v in vals {
        if let Some(e) = out.iter_mut().find(|e| e.0 == v) {
            e.1 += 1;
        } else {
            out.push((v, 1));
        }
    }
    Value::Array(out.into_iter().map(|(v, n)| json!([v, n])).collect())
}

fn one_rep(case: &Value) -> Value {
    let facts: Vec<Triple> = case["facts"].as_array().unwrap().iter().map(triple).collect();
    let r = build(case, false);
    // function level (hooks)
    let all: HashSet<Triple> = facts.iter().cloned().collect();
    let viol = r.verif_violates_constraints(&all);
    let mut sub_viol: Vec<bool> = Vec::new();
    if let Some(subs) = case["subsets"].as_array() {
        for s in subs {
            let set: HashSet<Triple> = s.as_array().unwrap().iter().map(|i| facts[i.as_u64().unwrap() as usize].clone()).collect();
            sub_viol.push(r.verif_violates_constraints(&set));
        }
    }
    let reps = r.verif_compute_repairs(&all);
    let mut reps_out: Vec<Vec<[u64; 3]>> = reps.iter().map(|s| set_out(s.iter())).collect();
    reps_out.sort();
    // queries (public API; the store content is what query_with_repairs reads)
    let mut answers: Vec<Value> = Vec::new();
    for g in case["goals"].as_array().map(|l| l.clone()).unwrap_or_default() {
        let q = atom(&g);
        let res = r.query_with_repairs(&q);
        let mut bs: Vec<Vec<[u64; 2]>> = res.iter().map(binding_out).collect();
        bs.sort();
        answers.push(json!(bs));
    }
    // materialisation (public API) on a fresh reasoner with the rules
    let mat = if case.get("rules").map(|r| !r.is_null()).unwrap_or(false) {
        let mut m = build(case, true);
        let inferred = m.infer_new_facts_semi_naive_with_repairs();
        let ds = m.dataset_index.query(None, None, None);
        let ds_set: HashSet<Triple> = ds.iter().cloned().collect();
        let still = m.verif_violates_constraints(&ds_set);
        json!({"ds": set_out(ds.iter()), "ds_len": ds.len(), "inferred": inferred.iter().map(tnum).collect::<Vec<_>>(), "viol": still})
    } else {
        Value::Null
    };
    json!({"viol": viol, "sub_viol": sub_viol, "repairs": reps_out, "answers": answers, "mat": mat})
}

fn main() {
    vharness::quiet_panics();
    vharness::run_cases(|case| {
        let k = case["reps"].as_u64().unwrap_or(1).max(1);
        let mut viol = Vec::new();
        let mut sub_viol = Vec::new();
        let mut repairs = Vec::new();
        let mut answers: Vec<Vec<Value>> = Vec::new();
        let mut mats = Vec::new();
        for _ in 0..k {
            let c = case.clone();
            match vharness::catch(move || one_rep(&c)) {
                Ok(v) => {
                    viol.push(v["viol"].clone());
                    sub_viol.push(v["sub_viol"].clone());
                    repairs.push(v["repairs"].clone());
                    for (i, a) in v["answers"].as_array().unwrap().iter().enumerate() {
                        if answers.len() <= i {
                            answers.push(Vec::new());
                        }
                        answers[i].push(a.clone());
                    }
                    mats.push(v["mat"].clone());
                }
                Err(m) => return json!({"panic": m}),
            }
        }
        json!({
            "viol": tally(viol),
            "sub_viol": tally(sub_viol),
            "repairs": tally(repairs),
            "answers": answers.into_iter().map(tally).collect::<Vec<_>>(),
            "mat": tally(mats),
        })
    });
}
