//! C07 driver: runs histories of SDD-manager operations on the real `shared::sdd::SddManager`
//! (public API only; the deadline of a budgeted operation is the caller-supplied closure, so every
//! interruption point is reachable without a hook) and reports what a user can observe:
//! outcome of every operation, handle (number taken from the Debug rendering), checkpoints consumed,
//! node count, truth tables (once through `enumerate_models`, once through `wmc` with indicator
//! weights), `wmc` values, model cubes and `wmc_gradient`.
//!
//! Modes (field "mode"): "report" (one history), "interrupt" (history + one budgeted operation
//! re-run with the deadline expiring at every checkpoint and with every node budget, then more
//! operations), "sweep3" (all operand pairs over three variables).
use serde_json::{json, Value};
use shared::diff_sdd::wmc_gradient;
use shared::sdd::{BoolOp, SddBudgetError, SddId, SddManager, SddOperationBudget, VarKind};
use std::collections::HashMap;

fn idnum(h: SddId) -> u64 {
    if h == SddId::FALSE {
        return 0;
    }
    if h == SddId::TRUE {
        return 1;
    }
    let s = format!("{:?}", h);
    s.trim_start_matches("SddId(").trim_end_matches(')').parse::<u64>().unwrap_or(u64::MAX)
}

struct Run {
    mgr: SddManager,
    hs: Vec<SddId>,
}

/// budget description: null = unbudgeted twin; {"max_nodes": n|null, "oracle": [bool..]} = try_* twin
struct Bud {
    max_nodes: usize,
    oracle: Vec<bool>,
}

fn bud_of(v: &Value) -> Option<Bud> {
    if v.is_null() {
        return None;
    }
    let max_nodes = v["max_nodes"].as_u64().map(|x| x as usize).unwrap_or(usize::MAX);
    let oracle = v["oracle"].as_array().map(|a| a.iter().map(|b| b.as_bool().unwrap()).collect()).unwrap_or_default();
    Some(Bud { max_nodes, oracle })
}

fn opb(s: &str) -> BoolOp {
    if s == "and" { BoolOp::And } else { BoolOp::Or }
}

/// returns [code, handle, ticks, node_count]; code 0 ok, 1 deadline, 2 node budget, 9 = var
fn step(r: &mut Run, op: &Value, bud_override: Option<&Bud>) -> Value {
    let a = op.as_array().unwrap();
    let tag = a[0].as_str().unwrap();
    if tag == "var" {
        let pos = a[2].as_f64().unwrap() / a[3].as_f64().unwrap();
        let neg = a[4].as_f64().unwrap() / a[5].as_f64().unwrap();
        let kind = if a[6].is_null() { VarKind::Independent } else { VarKind::ExclusiveGroup(a[6].as_u64().unwrap() as u32) };
        r.mgr.ensure_variable_weights(a[1].as_u64().unwrap() as u32, pos, neg, kind);
        return json!([9, 0, 0, r.mgr.node_count()]);
    }
    let own = bud_of(a.last().unwrap());
    let bud: Option<&Bud> = if bud_override.is_some() { bud_override } else { own.as_ref() };
    let h = |r: &Run, i: &Value| r.hs[i.as_u64().unwrap() as usize];
    let mut ticks: u64 = 0;
    let res: Result<SddId, SddBudgetError> = match bud {
        None => Ok(match tag {
            "lit" => r.mgr.literal(a[1].as_u64().unwrap() as u32, a[2].as_bool().unwrap()),
            "apply" => {
                let (x, y) = (h(r, &a[1]), h(r, &a[2]));
                r.mgr.apply(x, y, opb(a[3].as_str().unwrap()))
            }
            "neg" => {
                let x = h(r, &a[1]);
                r.mgr.negate(x)
            }
            "eo" => {
                let vs: Vec<u32> = a[1].as_array().unwrap().iter().map(|v| v.as_u64().unwrap() as u32).collect();
                r.mgr.exactly_one(&vs)
            }
            other => panic!("unknown op {}", other),
        }),
        Some(b) => {
            let oracle = b.oracle.clone();
            let mut calls: usize = 0;
            let mut available = || {
                let ans = if calls < oracle.len() { oracle[calls] } else { true };
                calls += 1;
                ans
            };
            let res = {
                let mut budget = SddOperationBudget::new(b.max_nodes, &mut available);
                match tag {
                    "lit" => r.mgr.try_literal(a[1].as_u64().unwrap() as u32, a[2].as_bool().unwrap(), &mut budget),
                    "apply" => {
                        let (x, y) = (h(r, &a[1]), h(r, &a[2]));
                        r.mgr.try_apply(x, y, opb(a[3].as_str().unwrap()), &mut budget)
                    }
                    "neg" => {
                        let x = h(r, &a[1]);
                        r.mgr.try_negate(x, &mut budget)
                    }
                    "eo" => {
                        let vs: Vec<u32> = a[1].as_array().unwrap().iter().map(|v| v.as_u64().unwrap() as u32).collect();
                        r.mgr.try_exactly_one(&vs, &mut budget)
                    }
                    other => panic!("unknown op {}", other),
                }
            };
            ticks = calls as u64;
            res
        }
    };
    match res {
        Ok(hd) => {
            r.hs.push(hd);
            json!([0, idnum(hd), ticks, r.mgr.node_count()])
        }
        Err(e) => {
            r.hs.push(SddId::FALSE);
            let code = match e { SddBudgetError::DeadlineExceeded => 1, SddBudgetError::NodeBudgetExceeded => 2 };
            json!([code, 0, ticks, r.mgr.node_count()])
        }
    }
}

/// truth table over variables 0..nv-1 as a decimal string (bit k = value under assignment k)
fn table_enum(mgr: &SddManager, h: SddId, nv: u32) -> String {
    let n = 1usize << nv;
    let mut bits = vec![false; n];
    for cube in mgr.enumerate_models(h) {
        for k in 0..n {
            if cube.iter().all(|&(v, pol)| v < 64 && (((k >> v) & 1) == 1) == pol) {
                bits[k] = true;
            }
        }
    }
    bits_to_dec(&bits)
}

fn bits_to_dec(bits: &[bool]) -> String {
    // big number to decimal without a bignum crate: base-1e9 limbs
    let mut limbs: Vec<u64> = vec![0];
    for &b in bits.iter().rev() {
        let mut carry = if b { 1u64 } else { 0 };
        for l in limbs.iter_mut() {
            let v = *l * 2 + carry;
            *l = v % 1_000_000_000;
            carry = v / 1_000_000_000;
        }
        if carry > 0 {
            limbs.push(carry);
        }
    }
    let mut s = format!("{}", limbs.last().unwrap());
    for l in limbs.iter().rev().skip(1) {
        s.push_str(&format!("{:09}", l));
    }
    s
}

/// truth tables through wmc with 0/1 indicator weights (weights restored afterwards)
fn tables_wmc(mgr: &mut SddManager, hs: &[SddId], nv: u32) -> Vec<String> {
    let n = 1usize << nv;
    let pos: Vec<f64> = mgr.pos_weight().to_vec();
    let neg: Vec<f64> = mgr.neg_weight().to_vec();
    let mut bits = vec![vec![false; n]; hs.len()];
    for k in 0..n {
        for v in 0..nv {
            let t = ((k >> v) & 1) == 1;
            mgr.set_pos_weight(v, if t { 1.0 } else { 0.0 });
            mgr.set_neg_weight(v, if t { 0.0 } else { 1.0 });
        }
        for (i, &h) in hs.iter().enumerate() {
            let w = mgr.wmc(h);
            bits[i][k] = w > 0.5; // exactness of the 0/1 value is reported by "wmc01_bad"
        }
    }
    for (v, w) in pos.iter().enumerate() {
        mgr.set_pos_weight(v as u32, *w);
    }
    for (v, w) in neg.iter().enumerate() {
        mgr.set_neg_weight(v as u32, *w);
    }
    bits.iter().map(|b| bits_to_dec(b)).collect()
}

/// indicator-weight wmc must be exactly 0 or 1 when every variable 0..nv-1 is registered
fn wmc01_bad(mgr: &mut SddManager, hs: &[SddId], nv: u32) -> u64 {
    let n = 1usize << nv;
    let pos: Vec<f64> = mgr.pos_weight().to_vec();
    let neg: Vec<f64> = mgr.neg_weight().to_vec();
    let mut bad = 0;
    for k in 0..n {
        for v in 0..nv {
            let t = ((k >> v) & 1) == 1;
            mgr.set_pos_weight(v, if t { 1.0 } else { 0.0 });
            mgr.set_neg_weight(v, if t { 0.0 } else { 1.0 });
        }
        for &h in hs {
            let w = mgr.wmc(h);
            if !(w == 0.0 || w == 1.0) {
                bad += 1;
            }
        }
    }
    for (v, w) in pos.iter().enumerate() {
        mgr.set_pos_weight(v as u32, *w);
    }
    for (v, w) in neg.iter().enumerate() {
        mgr.set_neg_weight(v as u32, *w);
    }
    bad
}

fn handles(r: &Run) -> Vec<u64> {
    r.hs.iter().map(|&h| idnum(h)).collect()
}

fn report(case: &Value) -> Value {
    let nv = case["nv"].as_u64().unwrap() as u32;
    let detail = case["detail"].as_bool().unwrap_or(false);
    let mut r = Run { mgr: SddManager::new(), hs: vec![] };
    let mut steps = vec![];
    for op in case["ops"].as_array().unwrap() {
        steps.push(step(&mut r, op, None));
    }
    let hs = r.hs.clone();
    let te: Vec<String> = hs.iter().map(|&h| table_enum(&r.mgr, h, nv)).collect();
    let wm: Vec<f64> = hs.iter().map(|&h| r.mgr.wmc(h)).collect();
    let mut out = json!({"steps": steps, "handles": handles(&r), "tables_enum": te, "wmc": wm});
    if detail {
        let models: Vec<Value> = hs.iter().map(|&h| {
            let mut ms: Vec<Vec<(u32, u32)>> = r.mgr.enumerate_models(h).into_iter()
                .map(|s| s.into_iter().map(|(v, p)| (v, p as u32)).collect()).collect();
            ms.sort();
            json!(ms)
        }).collect();
        let grads: Vec<Value> = hs.iter().map(|&h| {
            let g: HashMap<u32, f64> = wmc_gradient(&mut r.mgr, h);
            let mut gv: Vec<(u32, f64)> = g.into_iter().collect();
            gv.sort_by(|a, b| a.0.cmp(&b.0));
            json!(gv)
        }).collect();
        // the gradient must leave the weights unchanged
        let wm2: Vec<f64> = hs.iter().map(|&h| r.mgr.wmc(h)).collect();
        out["models"] = json!(models);
        out["grads"] = json!(grads);
        out["wmc_after_grad"] = json!(wm2);
    }
    out["wmc01_bad"] = json!(wmc01_bad(&mut r.mgr, &hs, nv));
    out["tables_wmc"] = json!(tables_wmc(&mut r.mgr, &hs, nv));
    out
}

fn run_interrupted(case: &Value, bud: &Bud, nv: u32) -> Value {
    let mut r = Run { mgr: SddManager::new(), hs: vec![] };
    for op in case["pre"].as_array().unwrap() {
        step(&mut r, op, None);
    }
    let t = step(&mut r, &case["target"], Some(bud));
    let mut post = vec![];
    for op in case["post"].as_array().unwrap() {
        post.push(step(&mut r, op, None));
    }
    let hs = r.hs.clone();
    let te: Vec<String> = hs.iter().map(|&h| table_enum(&r.mgr, h, nv)).collect();
    let tw = tables_wmc(&mut r.mgr, &hs, nv);
    json!({"target": t, "post": post, "handles": handles(&r), "tables_enum": te, "tables_wmc": tw})
}

fn interrupt(case: &Value) -> Value {
    let nv = case["nv"].as_u64().unwrap() as u32;
    // reference run: unlimited budget, counts checkpoints and nodes
    let free = Bud { max_nodes: usize::MAX, oracle: vec![] };
    let reference = run_interrupted(case, &free, nv);
    let total_ticks = reference["target"][2].as_u64().unwrap();
    let nodes_after = reference["target"][3].as_u64().unwrap();
    let mut by_k = vec![];
    for k in 1..=(total_ticks + 1) {
        let mut oracle = vec![true; (k - 1) as usize];
        oracle.push(false);
        by_k.push(run_interrupted(case, &Bud { max_nodes: usize::MAX, oracle }, nv));
    }
    let mut by_n = vec![];
    for n in 2..=nodes_after {
        by_n.push(run_interrupted(case, &Bud { max_nodes: n as usize, oracle: vec![] }, nv));
    }
    json!({"reference": reference, "by_k": by_k, "by_n": by_n})
}

/// all operand pairs over three variables introduced in the given order.
/// The 256 functions are built as disjunctions of minterms; for every pair (a, b) and both
/// operators the handle of the result is mapped back to the function whose handle it is.
fn sweep3(case: &Value) -> Value {
    let order: Vec<u32> = case["order"].as_array().unwrap().iter().map(|v| v.as_u64().unwrap() as u32).collect();
    let stride = case["stride"].as_u64().unwrap_or(1) as usize;
    let offset = case["offset"].as_u64().unwrap_or(0) as usize;
    let with_neg = case["negate"].as_bool().unwrap_or(true);
    let mut mgr = SddManager::new();
    for &v in &order {
        mgr.ensure_variable(v, 0.5);
    }
    let mut minterm = vec![];
    for k in 0..8usize {
        let mut acc = SddId::TRUE;
        for v in 0..3u32 {
            let l = mgr.literal(v, ((k >> v) & 1) == 1);
            acc = mgr.apply(acc, l, BoolOp::And);
        }
        minterm.push(acc);
    }
    let mut fun = vec![];
    for t in 0..256usize {
        let mut acc = SddId::FALSE;
        for k in 0..8usize {
            if (t >> k) & 1 == 1 {
                acc = mgr.apply(acc, minterm[k], BoolOp::Or);
            }
        }
        fun.push(acc);
    }
    let build_tables: Vec<String> = fun.iter().map(|&h| table_enum(&mgr, h, 3)).collect();
    let mut index: HashMap<SddId, usize> = HashMap::new();
    let mut dup = vec![];
    for (t, &h) in fun.iter().enumerate() {
        if let Some(&u) = index.get(&h) {
            dup.push((u, t));
        } else {
            index.insert(h, t);
        }
    }
    let nodes_before = mgr.node_count();
    let mut rows = vec![];
    let mut unknown = vec![];
    let mut pair = 0usize;
    for a in 0..256usize {
        let mut row: Vec<i64> = vec![];
        for b in 0..256usize {
            for (oi, op) in [BoolOp::And, BoolOp::Or].iter().enumerate() {
                pair += 1;
                if (pair + offset) % stride != 0 {
                    row.push(-2);
                    continue;
                }
                let r = mgr.apply(fun[a], fun[b], *op);
                match index.get(&r) {
                    Some(&t) => row.push(t as i64),
                    None => {
                        row.push(-1);
                        if unknown.len() < 20 {
                            unknown.push(json!([a, b, oi, idnum(r), table_enum(&mgr, r, 3)]));
                        }
                    }
                }
            }
        }
        rows.push(row);
    }
    let mut negs: Vec<i64> = vec![];
    if with_neg {
        for a in 0..256usize {
            let r = mgr.negate(fun[a]);
            negs.push(index.get(&r).map(|&t| t as i64).unwrap_or(-1));
        }
    }
    json!({"build_tables": build_tables, "dup": dup, "rows": rows, "negs": negs, "unknown": unknown,
           "nodes_before": nodes_before, "nodes_after": mgr.node_count()})
}

fn main() {
    vharness::quiet_panics();
    vharness::run_cases(|case| {
        let c = case.clone();
        let r = vharness::catch(move || match c["mode"].as_str().unwrap_or("report") {
            "report" => report(&c),
            "interrupt" => interrupt(&c),
            "sweep3" => sweep3(&c),
            other => panic!("unknown mode {}", other),
        });
        match r {
            Ok(v) => v,
            Err(m) => json!({"panic": m}),
        }
    });
}
