//! C04 driver: applies a history of store operations to the real DatasetIndex (inside a SparqlDatabase,
//! so that build_all_indexes is reachable) and reports the output of every operation, canonicalised
//! (lists sorted, multiplicities kept).  Graph ids: 0 = Default, g+1 = Named(g).
use kolibrie::sparql_database::SparqlDatabase;
use serde_json::{json, Value};
use shared::dataset_index::{GraphId, Quad};
use shared::triple::Triple;
use std::collections::HashSet;

fn gid(g: u64) -> GraphId {
    if g == 0 { GraphId::Default } else { GraphId::Named((g - 1) as u32) }
}
fn gnum(g: GraphId) -> u64 {
    match g { GraphId::Default => 0, GraphId::Named(n) => n as u64 + 1 }
}
fn opt(v: &Value) -> Option<u32> {
    v.as_u64().map(|x| x as u32)
}
fn quad(a: &[Value], i: usize) -> Quad {
    Quad {
        subject: a[i].as_u64().unwrap() as u32,
        predicate: a[i + 1].as_u64().unwrap() as u32,
        object: a[i + 2].as_u64().unwrap() as u32,
        graph: gid(a[i + 3].as_u64().unwrap()),
    }
}
fn quads_out(mut qs: Vec<Quad>) -> Value {
    qs.sort();
    let mut v: Vec<[u64; 4]> = qs.iter().map(|q| [q.subject as u64, q.predicate as u64, q.object as u64, gnum(q.graph)]).collect();
    v.sort();
    json!({"quads": v})
}
fn triples_out(ts: Vec<Triple>) -> Value {
    let mut v: Vec<[u64; 4]> = ts.iter().map(|t| [t.subject as u64, t.predicate as u64, t.object as u64, 0]).collect();
    v.sort();
    json!({"quads": v})
}
fn graphs_out(gs: Vec<GraphId>) -> Value {
    let mut v: Vec<u64> = gs.into_iter().map(gnum).collect();
    v.sort();
    json!({"graphs": v})
}

fn main() {
    vharness::quiet_panics();
    vharness::run_cases(|case| {
        let ops = case["ops"].as_array().unwrap().clone();
        let via_db = case["via_db"].as_bool().unwrap_or(false);
        let battery: Vec<Value> = case["battery"].as_array().cloned().unwrap_or_default();
        let r = vharness::catch(move || {
            let mut db = SparqlDatabase::new();
            let mut outs: Vec<Value> = Vec::new();
            for op0 in &ops {
              let mut step_outs: Vec<Value> = Vec::new();
              for op in std::iter::once(op0).chain(battery.iter()) {
                let a = op.as_array().unwrap();
                let tag = a[0].as_str().unwrap();
                let out = match tag {
                    "I" => {
                        let q = quad(a, 1);
                        let b = if via_db { db.add_quad(q) } else { db.dataset_index.insert_quad(&q) };
                        json!({"bool": b})
                    }
                    "D" => {
                        let q = quad(a, 1);
                        let b = if via_db { db.delete_quad(&q) } else { db.dataset_index.delete_quad(&q) };
                        json!({"bool": b})
                    }
                    "Create" => json!({"bool": db.dataset_index.create_graph(gid(a[1].as_u64().unwrap()))}),
                    "Drop" => json!({"bool": db.dataset_index.drop_graph(gid(a[1].as_u64().unwrap()))}),
                    "ClearG" => { db.dataset_index.clear_graph(gid(a[1].as_u64().unwrap())); json!({"unit": true}) }
                    "ClearAll" => { db.dataset_index.clear(); json!({"unit": true}) }
                    "Rebuild" => { db.build_all_indexes(); json!({"unit": true}) }
                    "Contains" => json!({"bool": db.dataset_index.contains_quad(&quad(a, 1))}),
                    "QGraph" => quads_out(db.dataset_index.query_graph(gid(a[1].as_u64().unwrap()), opt(&a[2]), opt(&a[3]), opt(&a[4]))),
                    "QNamed" => {
                        let vis: Option<HashSet<GraphId>> = a[4].as_array().map(|v| v.iter().map(|g| gid(g.as_u64().unwrap())).collect());
                        quads_out(db.dataset_index.query_named_graphs(opt(&a[1]), opt(&a[2]), opt(&a[3]), vis.as_ref()))
                    }
                    "QMerged" => {
                        let gs: Vec<GraphId> = a[1].as_array().unwrap().iter().map(|g| gid(g.as_u64().unwrap())).collect();
                        triples_out(db.dataset_index.query_merged_graphs(&gs, opt(&a[2]), opt(&a[3]), opt(&a[4])))
                    }
                    "QQuads" => quads_out(db.dataset_index.query_quads(opt(&a[1]), opt(&a[2]), opt(&a[3]), a[4].as_u64().map(gid))),
                    "GExists" => json!({"bool": db.dataset_index.graph_exists(gid(a[1].as_u64().unwrap()))}),
                    "NamedGraphs" => graphs_out(db.dataset_index.named_graphs()),
                    "Graphs" => graphs_out(db.dataset_index.graphs()),
                    "AllQuads" => quads_out(db.dataset_index.all_quads()),
                    "GraphsFor" => graphs_out(db.dataset_index.graphs_for_triple(&Triple {
                        subject: a[1].as_u64().unwrap() as u32,
                        predicate: a[2].as_u64().unwrap() as u32,
                        object: a[3].as_u64().unwrap() as u32,
                    })),
                    "LenG" => json!({"num": db.dataset_index.len_graph(gid(a[1].as_u64().unwrap()))}),
                    other => panic!("unknown op {}", other),
                };
                step_outs.push(out);
              }
              outs.push(Value::Array(step_outs));
            }
            outs
        });
        match r {
            Ok(outs) => json!({"outs": outs}),
            Err(m) => json!({"panic": m}),
        }
    });
}
