//! C04 driver: applies a history of store operations to the real DatasetIndex (inside a SparqlDatabase,
//! so that build_all_indexes is reachable) and reports the output of every operation, canonicalised
//! (lists sorted, multiplicities kept).  Graph ids: 0 = Default, g+1 = Named(g).
//!
//! Dictionary abstraction: the strings "t0".."t9" are encoded first, in order, so that id i <-> "t<i>"
//! (asserted).  Histories only use ids below 10; the large-graph cases carry `nterms` > 10 (then t0..t<nterms-1>
//! are encoded and only exact filters are used).  The string-level entry points
//! (`add_triple_parts`, `delete_triple_parts`, `add_quad_parts`, `QueryBuilder` filters,
//! `get_decoded_triples`) are driven with these strings; the dictionary itself is property C15's.
//! `via` selects how Insert/Delete are performed: "index" (DatasetIndex), "db" (SparqlDatabase
//! add_quad/delete_quad) or "parts" (the string-level mutators where one exists for the graph).
use kolibrie::sparql_database::SparqlDatabase;
use serde_json::{json, Value};
use shared::dataset_index::{GraphId, Quad};
use shared::triple::Triple;
use std::collections::HashSet;

fn gid(g: u64) -> GraphId {
    if g == 0 { GraphId::Default } else { GraphId::Named((g - 1) as u32) }
}
fn gnum(g: GraphId) -> u64 {
    match g { GraphId::Default => 0, GraphId::Named(n) => n as u64 + 1 }
}
fn opt(v: &Value) -> Option<u32> {
    v.as_u64().map(|x| x as u32)
}
fn quad(a: &[Value], i: usize) -> Quad {
    Quad {
        subject: a[i].as_u64().unwrap() as u32,
        predicate: a[i + 1].as_u64().unwrap() as u32,
        object: a[i + 2].as_u64().unwrap() as u32,
        graph: gid(a[i + 3].as_u64().unwrap()),
    }
}
fn quads_out(mut qs: Vec<Quad>) -> Value {
    qs.sort();
    let mut v: Vec<[u64; 4]> = qs.iter().map(|q| [q.subject as u64, q.predicate as u64, q.object as u64, gnum(q.graph)]).collect();
    v.sort();
    json!({"quads": v})
}
fn triples_out(ts: Vec<Triple>) -> Value {
    let mut v: Vec<[u64; 4]> = ts.iter().map(|t| [t.subject as u64, t.predicate as u64, t.object as u64, 0]).collect();
    v.sort();
    json!({"quads": v})
}
fn graphs_out(gs: Vec<GraphId>) -> Value {
    let mut v: Vec<u64> = gs.into_iter().map(gnum).collect();
    v.sort();
    json!({"graphs": v})
}

fn term(i: u64) -> String {
    format!("t{}", i)
}
fn unterm(s: &str) -> i64 {
    s.strip_prefix('t').and_then(|d| d.parse::<i64>().ok()).unwrap_or(-1)
}
/// QueryBuilder with one filter per bound position; `kinds` picks the filter flavour per position:
/// e = exact "t<i>", c = contains "t<i>", s = starts-with "t<i>", n = ends-with "<i>" (all equivalent on the
/// universe t0..t9); a 4th character 'd' adds `.distinct()`.
fn builder<'a>(db: &'a SparqlDatabase, a: &[Value]) -> kolibrie::query_builder::QueryBuilder<'a> {
    let kinds: Vec<char> = a.get(4).and_then(|k| k.as_str()).unwrap_or("eee").chars().collect();
    let kind = |i: usize| kinds.get(i).copied().unwrap_or('e');
    let mut qb = db.query();
    if let Some(x) = a[1].as_u64() {
        qb = match kind(0) {
            'c' => qb.with_subject_like(&term(x)),
            's' => qb.with_subject_starting(&term(x)),
            'n' => qb.with_subject_ending(&x.to_string()),
            _ => qb.with_subject(&term(x)),
        };
    }
    if let Some(x) = a[2].as_u64() {
        qb = match kind(1) {
            'c' => qb.with_predicate_like(&term(x)),
            's' => qb.with_predicate_starting(&term(x)),
            'n' => qb.with_predicate_ending(&x.to_string()),
            _ => qb.with_predicate(&term(x)),
        };
    }
    if let Some(x) = a[3].as_u64() {
        qb = match kind(2) {
            'c' => qb.with_object_like(&term(x)),
            's' => qb.with_object_starting(&term(x)),
            'n' => qb.with_object_ending(&x.to_string()),
            _ => qb.with_object(&term(x)),
        };
    }
    if kind(3) == 'd' {
        qb = qb.distinct();
    }
    qb
}

fn main() {
    vharness::quiet_panics();
    vharness::run_cases(|case| {
        let ops = case["ops"].as_array().unwrap().clone();
        let via: String = match case["via"].as_str() {
            Some(v) => v.to_string(),
            None => if case["via_db"].as_bool().unwrap_or(false) { "db".to_string() } else { "index".to_string() },
        };
        let battery: Vec<Value> = case["battery"].as_array().cloned().unwrap_or_default();
        let nterms: u32 = case["nterms"].as_u64().unwrap_or(10) as u32;
        let r = vharness::catch(move || {
            let mut db = SparqlDatabase::new();
            {
                let mut dict = db.dictionary.write().unwrap();
                for i in 0..nterms {
                    let id = dict.encode(&term(i as u64));
                    assert_eq!(id, i, "dictionary abstraction: t{} must get id {}", i, i);
                }
            }
            let mut outs: Vec<Value> = Vec::new();
            for op0 in &ops {
              let mut step_outs: Vec<Value> = Vec::new();
              for op in std::iter::once(op0).chain(battery.iter()) {
                let a = op.as_array().unwrap();
                let tag = a[0].as_str().unwrap();
                let out = match tag {
                    "I" => {
                        let q = quad(a, 1);
                        let (sx, px, ox, gx) = (a[1].as_u64().unwrap(), a[2].as_u64().unwrap(), a[3].as_u64().unwrap(), a[4].as_u64().unwrap());
                        match via.as_str() {
                            "db" => json!({"bool": db.add_quad(q)}),
                            "parts" if gx == 0 => {
                                // add_triple_parts returns nothing: the insert's own result is not observable here
                                db.add_triple_parts(&term(sx), &term(px), &term(ox));
                                json!({"unit": true})
                            }
                            "parts" => json!({"bool": db.add_quad_parts(&term(sx), &term(px), &term(ox), &term(gx - 1))}),
                            _ => json!({"bool": db.dataset_index.insert_quad(&q)}),
                        }
                    }
                    "D" => {
                        let q = quad(a, 1);
                        let (sx, px, ox, gx) = (a[1].as_u64().unwrap(), a[2].as_u64().unwrap(), a[3].as_u64().unwrap(), a[4].as_u64().unwrap());
                        let b = match via.as_str() {
                            "db" => db.delete_quad(&q),
                            "parts" if gx == 0 => db.delete_triple_parts(&term(sx), &term(px), &term(ox)),
                            "parts" => db.delete_quad(&q),   // no string-level delete for named graphs
                            _ => db.dataset_index.delete_quad(&q),
                        };
                        json!({"bool": b})
                    }
                    "Create" => json!({"bool": db.dataset_index.create_graph(gid(a[1].as_u64().unwrap()))}),
                    "Drop" => json!({"bool": db.dataset_index.drop_graph(gid(a[1].as_u64().unwrap()))}),
                    "ClearG" => { db.dataset_index.clear_graph(gid(a[1].as_u64().unwrap())); json!({"unit": true}) }
                    "ClearAll" => { db.dataset_index.clear(); json!({"unit": true}) }
                    "Rebuild" => { db.build_all_indexes(); json!({"unit": true}) }
                    "Contains" => json!({"bool": db.dataset_index.contains_quad(&quad(a, 1))}),
                    "QGraph" => quads_out(db.dataset_index.query_graph(gid(a[1].as_u64().unwrap()), opt(&a[2]), opt(&a[3]), opt(&a[4]))),
                    "QNamed" => {
                        let vis: Option<HashSet<GraphId>> = a[4].as_array().map(|v| v.iter().map(|g| gid(g.as_u64().unwrap())).collect());
                        quads_out(db.dataset_index.query_named_graphs(opt(&a[1]), opt(&a[2]), opt(&a[3]), vis.as_ref()))
                    }
                    "QMerged" => {
                        let gs: Vec<GraphId> = a[1].as_array().unwrap().iter().map(|g| gid(g.as_u64().unwrap())).collect();
                        triples_out(db.dataset_index.query_merged_graphs(&gs, opt(&a[2]), opt(&a[3]), opt(&a[4])))
                    }
                    "QQuads" => quads_out(db.dataset_index.query_quads(opt(&a[1]), opt(&a[2]), opt(&a[3]), a[4].as_u64().map(gid))),
                    "GExists" => json!({"bool": db.dataset_index.graph_exists(gid(a[1].as_u64().unwrap()))}),
                    "NamedGraphs" => graphs_out(db.dataset_index.named_graphs()),
                    "Graphs" => graphs_out(db.dataset_index.graphs()),
                    "AllQuads" => quads_out(db.dataset_index.all_quads()),
                    "GraphsFor" => graphs_out(db.dataset_index.graphs_for_triple(&Triple {
                        subject: a[1].as_u64().unwrap() as u32,
                        predicate: a[2].as_u64().unwrap() as u32,
                        object: a[3].as_u64().unwrap() as u32,
                    })),
                    "LenG" => json!({"num": db.dataset_index.len_graph(gid(a[1].as_u64().unwrap()))}),
                    "QB" => triples_out(builder(&db, a).get_triples().into_iter().collect()),
                    "QBDec" => {
                        let mut v: Vec<[i64; 4]> = builder(&db, a).get_decoded_triples().iter()
                            .map(|(s, p, o)| [unterm(s), unterm(p), unterm(o), 0]).collect();
                        v.sort();
                        json!({"quads": v})
                    }
                    "QBCount" => json!({"num": builder(&db, a).count()}),
                    other => panic!("unknown op {}", other),
                };
                step_outs.push(out);
              }
              outs.push(Value::Array(step_outs));
            }
            outs
        });
        match r {
            Ok(outs) => json!({"outs": outs}),
            Err(m) => json!({"panic": m}),
        }
    });
}
