//! C15 driver.  Two kinds of cases:
//!  * `seq`  - a sequence of encode / decode / quoted-encode calls on a fresh Dictionary +
//!             QuotedTripleStore (mode "raw": the two structs on their own; mode "db": the ones inside a
//!             SparqlDatabase, terms through `encode_term_star`, decoding through `decode_any`);
//!             every returned id / string is reported, then the complete final maps.
//!  * `pair` - two databases populated independently through the public API, then `a.union(&b)`;
//!             reports the lexical denotation (everything decoded with `decode_any`) of a, b and the
//!             union, and the union's dictionary / quoted store id-for-id.
//! Terms travel as JSON: a string is a lexical form, an array of three terms is a quoted triple;
//! `[term, rendered]` pairs carry the string handed to `encode_term_star`.
//! Only public API of /repo is used (no hook).
use kolibrie::sparql_database::SparqlDatabase;
use serde_json::{json, Value};
use shared::dataset_index::{GraphId, Quad};
use shared::dictionary::Dictionary;
use shared::quoted_triple_store::{is_quoted_triple_id, QuotedTripleStore};
use shared::triple::Triple;

fn u(v: &Value) -> u32 {
    v.as_u64().expect("id") as u32
}

/// structural decoding through the public `decode` of both stores (depth-limited, so that a cyclic
/// store cannot overflow the stack of the driver itself)
fn tree(d: &Dictionary, q: &QuotedTripleStore, id: u32, depth: u32) -> Value {
    if depth > 64 {
        return Value::Null;
    }
    if is_quoted_triple_id(id) {
        match q.decode(id) {
            None => Value::Null,
            Some((s, p, o)) => {
                let (a, b, c) = (tree(d, q, s, depth + 1), tree(d, q, p, depth + 1), tree(d, q, o, depth + 1));
                if a.is_null() || b.is_null() || c.is_null() {
                    Value::Null
                } else {
                    json!([a, b, c])
                }
            }
        }
    } else {
        match d.decode(id) {
            None => Value::Null,
            Some(s) => json!(s),
        }
    }
}

fn enc_tree_raw(d: &mut Dictionary, q: &mut QuotedTripleStore, t: &Value) -> u32 {
    match t {
        Value::String(s) => d.encode(s),
        Value::Array(a) => {
            let s = enc_tree_raw(d, q, &a[0]);
            let p = enc_tree_raw(d, q, &a[1]);
            let o = enc_tree_raw(d, q, &a[2]);
            q.encode(s, p, o)
        }
        _ => panic!("bad term"),
    }
}

fn dump(d: &Dictionary, q: &QuotedTripleStore) -> Value {
    let mut s2i: Vec<(String, u32)> = d.string_to_id.iter().map(|(k, v)| (k.clone(), *v)).collect();
    s2i.sort();
    let mut i2s: Vec<(u32, String)> = d.id_to_string.iter().map(|(k, v)| (*k, v.clone())).collect();
    i2s.sort();
    let mut c2i: Vec<((u32, u32, u32), u32)> = q.components_to_id.iter().map(|(k, v)| (*k, *v)).collect();
    c2i.sort();
    let mut i2c: Vec<(u32, (u32, u32, u32))> = q.id_to_components.iter().map(|(k, v)| (*k, *v)).collect();
    i2c.sort();
    json!({"s2i": s2i, "i2s": i2s, "next": d.next_id, "c2i": c2i, "i2c": i2c, "next_qt": q.next_qt_id})
}

/// One call of a sequence; a panic (the dictionary's exhaustion assert, an arithmetic overflow of the
/// quoted counter) is reported as the output of that call and ends the history.
fn seq_op(
    op: &Value,
    db: Option<&SparqlDatabase>,
    d: &mut Dictionary,
    q: &mut QuotedTripleStore,
) -> Value {
    let a = op.as_array().unwrap();
    match (a[0].as_str().unwrap(), db) {
        ("Enc", Some(db)) => json!({"id": db.dictionary.write().unwrap().encode(a[1].as_str().unwrap())}),
        ("Dec", Some(db)) => json!({"lex": db.dictionary.read().unwrap().decode(u(&a[1]))}),
        ("EncQ", Some(db)) => json!({"id": db.quoted_triple_store.write().unwrap().encode(u(&a[1]), u(&a[2]), u(&a[3]))}),
        ("DecQ", Some(db)) => json!({"key": db.quoted_triple_store.read().unwrap().decode(u(&a[1]))}),
        ("EncT", Some(db)) => json!({"id": db.encode_term_star(a[2].as_str().unwrap())}),
        ("DecT", Some(db)) => {
            let s = db.decode_any(u(&a[1]));
            let d = db.dictionary.read().unwrap();
            let q = db.quoted_triple_store.read().unwrap();
            json!({"str": s, "tree": tree(&d, &q, u(&a[1]), 0)})
        }
        ("Enc", None) => json!({"id": d.encode(a[1].as_str().unwrap())}),
        ("Dec", None) => json!({"lex": d.decode(u(&a[1]))}),
        ("EncQ", None) => json!({"id": q.encode(u(&a[1]), u(&a[2]), u(&a[3]))}),
        ("DecQ", None) => json!({"key": q.decode(u(&a[1]))}),
        ("EncT", None) => json!({"id": enc_tree_raw(d, q, &a[1])}),
        ("DecT", None) => json!({"str": d.decode_term(u(&a[1]), q), "tree": tree(d, q, u(&a[1]), 0)}),
        (other, _) => panic!("unknown op {}", other),
    }
}

fn run_seq(case: &Value) -> Value {
    let ops = case["ops"].as_array().unwrap().clone();
    let dbmode = matches!(case["mode"].as_str(), Some("db") | Some("text"));
    // the public counters may be set before the history starts (boundary cases around 2^31 / u32::MAX)
    let start_next = case["start_next"].as_u64().map(|x| x as u32);
    let start_next_qt = case["start_next_qt"].as_u64().map(|x| x as u32);
    let mut outs: Vec<Value> = Vec::new();
    let mut d = Dictionary::new();
    let mut q = QuotedTripleStore::new();
    let db = if dbmode { Some(SparqlDatabase::new()) } else { None };
    if let Some(n) = start_next {
        match &db {
            Some(db) => db.dictionary.write().unwrap().next_id = n,
            None => d.next_id = n,
        }
    }
    if let Some(n) = start_next_qt {
        match &db {
            Some(db) => db.quoted_triple_store.write().unwrap().next_qt_id = n,
            None => q.next_qt_id = n,
        }
    }
    let mut panicked = false;
    for op in &ops {
        let r = vharness::catch(std::panic::AssertUnwindSafe(|| seq_op(op, db.as_ref(), &mut d, &mut q)));
        match r {
            Ok(v) => outs.push(v),
            Err(m) => {
                // A refused call must leave nothing behind: for a refused plain `Enc` on the raw dictionary
                // (no lock to poison) the same call is issued once more and its outcome recorded - it has to
                // be refused again; an identifier handed out now comes from state the failed call left.
                let is_raw_enc = db.is_none() && op.as_array().map_or(false, |a| a[0].as_str() == Some("Enc"));
                if is_raw_enc && m.contains("exhausted") {
                    let again = vharness::catch(std::panic::AssertUnwindSafe(|| seq_op(op, None, &mut d, &mut q)));
                    let retry = match again {
                        Ok(v) => v,
                        Err(m2) => json!({"panic": m2}),
                    };
                    outs.push(json!({"panic": m, "retry": retry}));
                } else {
                    outs.push(json!({"panic": m}));
                }
                panicked = true;
                break;
            }
        }
    }
    let dmp = match &db {
        Some(db) => {
            // a panic inside a write guard poisons the lock; the data is still what the failing call left
            let d = db.dictionary.read().unwrap_or_else(|e| e.into_inner());
            let q = db.quoted_triple_store.read().unwrap_or_else(|e| e.into_inner());
            dump(&d, &q)
        }
        None => dump(&d, &q),
    };
    json!({"outs": outs, "dump": dmp, "panicked": panicked})
}

// ---- pairs of databases ------------------------------------------------------------------------
fn rendered(v: &Value) -> &str {
    v.as_array().unwrap()[1].as_str().unwrap()
}

fn populate(db: &mut SparqlDatabase, ops: &[Value]) {
    for op in ops {
        let a = op.as_array().unwrap();
        match a[0].as_str().unwrap() {
            "AddQuad" => {
                db.add_quad_parts(rendered(&a[1]), rendered(&a[2]), rendered(&a[3]), a[4].as_str().unwrap());
            }
            "AddStar" => {
                let s = db.encode_term_star(rendered(&a[1]));
                let p = db.encode_term_star(rendered(&a[2]));
                let o = db.encode_term_star(rendered(&a[3]));
                db.add_triple(Triple { subject: s, predicate: p, object: o });
            }
            "AddTriple" => db.add_triple_parts(a[1].as_str().unwrap(), a[2].as_str().unwrap(), a[3].as_str().unwrap()),
            "Tagged" => db.add_tagged_triple(
                a[1].as_str().unwrap(),
                a[2].as_str().unwrap(),
                a[3].as_str().unwrap(),
                a[4].as_u64().unwrap() as f64 / 16.0,
            ),
            "Create" => {
                let id = db.dictionary.write().unwrap().encode(a[1].as_str().unwrap());
                db.dataset_index.create_graph(GraphId::Named(id));
            }
            "Encode" => {
                db.encode_term_star(rendered(&a[1]));
            }
            "DelQuad" => {
                let s = db.encode_term_star(rendered(&a[1]));
                let p = db.encode_term_star(rendered(&a[2]));
                let o = db.encode_term_star(rendered(&a[3]));
                let g = match a[4].as_str() {
                    None => GraphId::Default,
                    Some(g) => GraphId::Named(db.dictionary.write().unwrap().encode(g)),
                };
                db.delete_quad(&Quad { subject: s, predicate: p, object: o, graph: g });
            }
            "Seed" => {
                // a seed written into the public map: its triple need not be asserted in any graph
                let s = db.encode_term_star(rendered(&a[1]));
                let p = db.encode_term_star(rendered(&a[2]));
                let o = db.encode_term_star(rendered(&a[3]));
                db.probability_seeds.insert(Triple { subject: s, predicate: p, object: o }, a[4].as_u64().unwrap() as f64 / 16.0);
            }
            other => panic!("unknown bop {}", other),
        }
    }
}

fn add_raw(db: &mut SparqlDatabase, case: &Value) {
    for q in case["raw_quads_b"].as_array().cloned().unwrap_or_default() {
        let a = q.as_array().unwrap();
        let g = if a[3].is_null() { GraphId::Default } else { GraphId::Named(u(&a[3])) };
        db.add_quad(Quad { subject: u(&a[0]), predicate: u(&a[1]), object: u(&a[2]), graph: g });
    }
    for g in case["raw_graphs_b"].as_array().cloned().unwrap_or_default() {
        db.dataset_index.create_graph(GraphId::Named(u(&g)));
    }
    for s in case["raw_seeds_b"].as_array().cloned().unwrap_or_default() {
        let a = s.as_array().unwrap();
        db.probability_seeds.insert(
            Triple { subject: u(&a[0]), predicate: u(&a[1]), object: u(&a[2]) },
            a[3].as_u64().unwrap() as f64 / 16.0,
        );
    }
}

/// [decode_any string, structural tree] of an id
fn dterm(db: &SparqlDatabase, id: u32) -> Value {
    let s = db.decode_any(id);
    let d = db.dictionary.read().unwrap();
    let q = db.quoted_triple_store.read().unwrap();
    json!([s, tree(&d, &q, id, 0)])
}

/// For every id the database holds (dictionary, quoted store, quads, graph names, seeds): decode it with
/// `decode_any`, encode the rendered term again with `encode_term_star`, and report the ids for which the
/// result is another id (a stable bijection returns the same id and allocates nothing).
fn roundtrip(db: &SparqlDatabase) -> Value {
    let mut ids: Vec<u32> = db.dictionary.read().unwrap().id_to_string.keys().copied().collect();
    ids.extend(db.quoted_triple_store.read().unwrap().id_to_components.keys().copied());
    for q in db.dataset_index.all_quads() {
        ids.extend([q.subject, q.predicate, q.object]);
        if let GraphId::Named(g) = q.graph {
            ids.push(g);
        }
    }
    for g in db.dataset_index.named_graphs() {
        if let GraphId::Named(g) = g {
            ids.push(g);
        }
    }
    for t in db.probability_seeds.keys() {
        ids.extend([t.subject, t.predicate, t.object]);
    }
    ids.sort_unstable();
    ids.dedup();
    let before = (db.dictionary.read().unwrap().next_id, db.quoted_triple_store.read().unwrap().next_qt_id);
    let mut bad: Vec<Value> = Vec::new();
    for id in &ids {
        match db.decode_any(*id) {
            None => bad.push(json!([id, Value::Null, Value::Null])),
            Some(s) => {
                let back = db.encode_term_star(&s);
                if back != *id {
                    bad.push(json!([id, s, back]));
                }
            }
        }
    }
    let after = (db.dictionary.read().unwrap().next_id, db.quoted_triple_store.read().unwrap().next_qt_id);
    json!({"checked": ids.len(), "mismatches": bad, "allocated": before != after})
}

fn denotation(db: &SparqlDatabase) -> Value {
    let mut quads: Vec<Value> = Vec::new();
    for q in db.dataset_index.all_quads() {
        let g = match q.graph {
            GraphId::Default => Value::Null,
            GraphId::Named(g) => dterm(db, g),
        };
        quads.push(json!([dterm(db, q.subject), dterm(db, q.predicate), dterm(db, q.object), g]));
    }
    let mut graphs: Vec<Value> = Vec::new();
    for g in db.dataset_index.named_graphs() {
        if let GraphId::Named(g) = g {
            graphs.push(dterm(db, g));
        }
    }
    let term_ids: Vec<u32> = db.dictionary.read().unwrap().id_to_string.keys().copied().collect();
    let terms: Vec<Value> = term_ids.into_iter().map(|i| dterm(db, i)).collect();
    let qt_ids: Vec<u32> = db.quoted_triple_store.read().unwrap().id_to_components.keys().copied().collect();
    let quoted: Vec<Value> = qt_ids.into_iter().map(|i| dterm(db, i)).collect();
    let mut seeds: Vec<Value> = Vec::new();
    for (t, p) in &db.probability_seeds {
        seeds.push(json!([dterm(db, t.subject), dterm(db, t.predicate), dterm(db, t.object), p * 16.0]));
    }
    let d = db.dictionary.read().unwrap();
    let q = db.quoted_triple_store.read().unwrap();
    json!({"quads": quads, "graphs": graphs, "terms": terms, "quoted": quoted, "seeds": seeds, "dump": dump(&d, &q)})
}

fn run_pair(case: &Value) -> Value {
    let case = case.clone();
    let r = vharness::catch(move || {
        let mut a = SparqlDatabase::new();
        let mut b = SparqlDatabase::new();
        populate(&mut a, case["a"].as_array().unwrap());
        populate(&mut b, case["b"].as_array().unwrap());
        add_raw(&mut b, &case);
        let da = denotation(&a);
        let db_ = denotation(&b);
        let un = vharness::catch(std::panic::AssertUnwindSafe(|| a.union(&b)));
        let uj = match un {
            Ok(udb) => {
                let den = denotation(&udb);
                let dmp = {
                    let d = udb.dictionary.read().unwrap();
                    let q = udb.quoted_triple_store.read().unwrap();
                    dump(&d, &q)
                };
                // taken last, because re-encoding would allocate if the result were not a bijection
                let rt = roundtrip(&udb);
                json!({"den": den, "dump": dmp, "roundtrip": rt})
            }
            Err(m) => json!({"panic": m}),
        };
        // the operands must be left as they were
        let da2 = denotation(&a);
        let db2 = denotation(&b);
        json!({"a": da, "b": db_, "u": uj, "a_after": da2, "b_after": db2})
    });
    match r {
        Ok(v) => v,
        Err(m) => json!({"panic": m}),
    }
}

fn main() {
    vharness::quiet_panics();
    // like vharness::run_cases, but every result line is flushed at once: a case that aborts the process
    // (stack overflow on a cyclic quoted store) must not take the results of the cases before it with it
    use std::io::{BufRead, Write};
    let args: Vec<String> = std::env::args().collect();
    if args.len() < 3 {
        eprintln!("usage: {} <cases.jsonl> <results.jsonl>", args[0]);
        std::process::exit(2);
    }
    let inp = std::io::BufReader::new(std::fs::File::open(&args[1]).expect("open cases"));
    let mut out = std::fs::File::create(&args[2]).expect("create results");
    for line in inp.lines() {
        let line = line.expect("read");
        if line.trim().is_empty() {
            continue;
        }
        let case: Value = serde_json::from_str(&line).expect("case json");
        let res = match case["kind"].as_str() {
            Some("seq") => run_seq(&case),
            Some("pair") => run_pair(&case),
            _ => json!({"error": "unknown case kind"}),
        };
        writeln!(out, "{}", serde_json::to_string(&res).unwrap()).unwrap();
        out.flush().unwrap();
    }
}
