//! C15 driver.  Two kinds of cases:
//!  * `seq`  - a sequence of encode / decode / quoted-encode calls on a fresh Dictionary +
//!             QuotedTripleStore (mode "raw": the two structs on their own; mode "db": the ones inside a
//!             SparqlDatabase, terms through `encode_term_star`, decoding through `decode_any`);
//!             every returned id / string is reported, then the complete final maps.
//!  * `pair` - two databases populated independently through the public API, then `a.union(&b)`;
//!             reports the lexical denotation (everything decoded with `decode_any`) of a, b and the
//!             union, and the union's dictionary / quoted store id-for-id.
//! Terms travel as JSON: a string is a lexical form, an array of three terms is a quoted triple;
//! `[term, rendered]` pairs carry the string handed to `encode_term_star`.
//! Only public API of /repo is used (no hook).
use kolibrie::sparql_database::SparqlDatabase;
use serde_json::{json, Value};
use shared::dataset_index::{GraphId, Quad};
use shared::dictionary::Dictionary;
use shared::quoted_triple_store::{is_quoted_triple_id, QuotedTripleStore};
use shared::triple::Triple;

fn u(v: &Value) -> u32 {
    v.as_u64().expect("id") as u32
}

/// structural decoding through the public `decode` of both stores (depth-limited, so that a cyclic
/// store cannot overflow the stack of the driver itself)
fn tree(d: &Dictionary, q: &QuotedTripleStore, id: u32, depth: u32) -> Value {
    if depth > 64 {
        return Value::Null;
    }
    if is_quoted_triple_id(id) {
        match q.decode(id) {
            None => Value::Null,
            Some((s, p, o)) => {
                let (a, b, c) = (tree(d, q, s, depth + 1), tree(d, q, p, depth + 1), tree(d, q, o, depth + 1));
                if a.is_null() || b.is_null() || c.is_null() {
                    Value::Null
                } else {
                    json!([a, b, c])
                }
            }
        }
    } else {
        match d.decode(id) {
            None => Value::Null,
            Some(s) => json!(s),
        }
    }
}

fn enc_tree_raw(d: &mut Dictionary, q: &mut QuotedTripleStore, t: &Value) -> u32 {
    match t {
        Value::String(s) => d.encode(s),
        Value::Array(a) => {
            let s = enc_tree_raw(d, q, &a[0]);
            let p = enc_tree_raw(d, q, &a[1]);
            let o = enc_tree_raw(d, q, &a[2]);
            q.encode(s, p, o)
        }
        _ => panic!("bad term"),
    }
}

fn dump(d: &Dictionary, q: &QuotedTripleStore) -> Value {
    let mut s2i: Vec<(String, u32)> = d.string_to_id.iter().map(|(k, v)| (k.clone(), *v)).collect();
    s2i.sort();
    let mut i2s: Vec<(u32, String)> = d.id_to_string.iter().map(|(k, v)| (*k, v.clone())).collect();
    i2s.sort();
    let mut c2i: Vec<((u32, u32, u32), u32)> = q.components_to_id.iter().map(|(k, v)| (*k, *v)).collect();
    c2i.sort();
    let mut i2c: Vec<(u32, (u32, u32, u32))> = q.id_to_components.iter().map(|(k, v)| (*k, *v)).collect();
    i2c.sort();
    json!({"s2i": s2i, "i2s": i2s, "next": d.next_id, "c2i": c2i, "i2c": i2c, "next_qt": q.next_qt_id})
}

fn run_seq(case: &Value) -> Value {
    let ops = case["ops"].as_array().unwrap().clone();
    let dbmode = case["mode"].as_str() == Some("db");
    let r = vharness::catch(move || {
        let mut outs: Vec<Value> = Vec::new();
        if dbmode {
            let db = SparqlDatabase::new();
            for op in &ops {
                let a = op.as_array().unwrap();
                let o = match a[0].as_str().unwrap() {
                    "Enc" => json!({"id": db.dictionary.write().unwrap().encode(a[1].as_str().unwrap())}),
                    "Dec" => json!({"lex": db.dictionary.read().unwrap().decode(u(&a[1]))}),
                    "EncQ" => json!({"id": db.quoted_triple_store.write().unwrap().encode(u(&a[1]), u(&a[2]), u(&a[3]))}),
                    "DecQ" => json!({"key": db.quoted_triple_store.read().unwrap().decode(u(&a[1]))}),
                    "EncT" => json!({"id": db.encode_term_star(a[2].as_str().unwrap())}),
                    "DecT" => {
                        let s = db.decode_any(u(&a[1]));
                        let d = db.dictionary.read().unwrap();
                        let q = db.quoted_triple_store.read().unwrap();
                        json!({"str": s, "tree": tree(&d, &q, u(&a[1]), 0)})
                    }
                    other => panic!("unknown op {}", other),
                };
                outs.push(o);
            }
            let d = db.dictionary.read().unwrap();
            let q = db.quoted_triple_store.read().unwrap();
            json!({"outs": outs, "dump": dump(&d, &q)})
        } else {
            let mut d = Dictionary::new();
            let mut q = QuotedTripleStore::new();
            for op in &ops {
                let a = op.as_array().unwrap();
                let o = match a[0].as_str().unwrap() {
                    "Enc" => json!({"id": d.encode(a[1].as_str().unwrap())}),
                    "Dec" => json!({"lex": d.decode(u(&a[1]))}),
                    "EncQ" => json!({"id": q.encode(u(&a[1]), u(&a[2]), u(&a[3]))}),
                    "DecQ" => json!({"key": q.decode(u(&a[1]))}),
                    "EncT" => json!({"id": enc_tree_raw(&mut d, &mut q, &a[1])}),
                    "DecT" => json!({"str": d.decode_term(u(&a[1]), &q), "tree": tree(&d, &q, u(&a[1]), 0)}),
                    other => panic!("unknown op {}", other),
                };
                outs.push(o);
            }
            json!({"outs": outs, "dump": dump(&d, &q)})
        }
    });
    match r {
        Ok(v) => v,
        Err(m) => json!({"panic": m}),
    }
}

// ---- pairs of databases ------------------------------------------------------------------------
fn rendered(v: &Value) -> &str {
    v.as_array().unwrap()[1].as_str().unwrap()
}

fn populate(db: &mut SparqlDatabase, ops: &[Value]) {
    for op in ops {
        let a = op.as_array().unwrap();
        match a[0].as_str().unwrap() {
            "AddQuad" => {
                db.add_quad_parts(rendered(&a[1]), rendered(&a[2]), rendered(&a[3]), a[4].as_str().unwrap());
            }
            "AddStar" => {
                let s = db.encode_term_star(rendered(&a[1]));
                let p = db.encode_term_star(rendered(&a[2]));
                let o = db.encode_term_star(rendered(&a[3]));
                db.add_triple(Triple { subject: s, predicate: p, object: o });
            }
            "AddTriple" => db.add_triple_parts(a[1].as_str().unwrap(), a[2].as_str().unwrap(), a[3].as_str().unwrap()),
            "Tagged" => db.add_tagged_triple(
                a[1].as_str().unwrap(),
                a[2].as_str().unwrap(),
                a[3].as_str().unwrap(),
                a[4].as_u64().unwrap() as f64 / 16.0,
            ),
            "Create" => {
                let id = db.dictionary.write().unwrap().encode(a[1].as_str().unwrap());
                db.dataset_index.create_graph(GraphId::Named(id));
            }
            "Encode" => {
                db.encode_term_star(rendered(&a[1]));
            }
            "DelQuad" => {
                let s = db.encode_term_star(rendered(&a[1]));
                let p = db.encode_term_star(rendered(&a[2]));
                let o = db.encode_term_star(rendered(&a[3]));
                let g = match a[4].as_str() {
                    None => GraphId::Default,
                    Some(g) => GraphId::Named(db.dictionary.write().unwrap().encode(g)),
                };
                db.delete_quad(&Quad { subject: s, predicate: p, object: o, graph: g });
            }
            other => panic!("unknown bop {}", other),
        }
    }
}

fn add_raw(db: &mut SparqlDatabase, case: &Value) {
    for q in case["raw_quads_b"].as_array().cloned().unwrap_or_default() {
        let a = q.as_array().unwrap();
        let g = if a[3].is_null() { GraphId::Default } else { GraphId::Named(u(&a[3])) };
        db.add_quad(Quad { subject: u(&a[0]), predicate: u(&a[1]), object: u(&a[2]), graph: g });
    }
    for g in case["raw_graphs_b"].as_array().cloned().unwrap_or_default() {
        db.dataset_index.create_graph(GraphId::Named(u(&g)));
    }
    for s in case["raw_seeds_b"].as_array().cloned().unwrap_or_default() {
        let a = s.as_array().unwrap();
        db.probability_seeds.insert(
            Triple { subject: u(&a[0]), predicate: u(&a[1]), object: u(&a[2]) },
            a[3].as_u64().unwrap() as f64 / 16.0,
        );
    }
}

/// [decode_any string, structural tree] of an id
fn dterm(db: &SparqlDatabase, id: u32) -> Value {
    let s = db.decode_any(id);
    let d = db.dictionary.read().unwrap();
    let q = db.quoted_triple_store.read().unwrap();
    json!([s, tree(&d, &q, id, 0)])
}

fn denotation(db: &SparqlDatabase) -> Value {
    let mut quads: Vec<Value> = Vec::new();
    for q in db.dataset_index.all_quads() {
        let g = match q.graph {
            GraphId::Default => Value::Null,
            GraphId::Named(g) => dterm(db, g),
        };
        quads.push(json!([dterm(db, q.subject), dterm(db, q.predicate), dterm(db, q.object), g]));
    }
    let mut graphs: Vec<Value> = Vec::new();
    for g in db.dataset_index.named_graphs() {
        if let GraphId::Named(g) = g {
            graphs.push(dterm(db, g));
        }
    }
    let term_ids: Vec<u32> = db.dictionary.read().unwrap().id_to_string.keys().copied().collect();
    let terms: Vec<Value> = term_ids.into_iter().map(|i| dterm(db, i)).collect();
    let qt_ids: Vec<u32> = db.quoted_triple_store.read().unwrap().id_to_components.keys().copied().collect();
    let quoted: Vec<Value> = qt_ids.into_iter().map(|i| dterm(db, i)).collect();
    let mut seeds: Vec<Value> = Vec::new();
    for (t, p) in &db.probability_seeds {
        seeds.push(json!([dterm(db, t.subject), dterm(db, t.predicate), dterm(db, t.object), p * 16.0]));
    }
    let d = db.dictionary.read().unwrap();
    let q = db.quoted_triple_store.read().unwrap();
    json!({"quads": quads, "graphs": graphs, "terms": terms, "quoted": quoted, "seeds": seeds, "dump": dump(&d, &q)})
}

fn run_pair(case: &Value) -> Value {
    let case = case.clone();
    let r = vharness::catch(move || {
        let mut a = SparqlDatabase::new();
        let mut b = SparqlDatabase::new();
        populate(&mut a, case["a"].as_array().unwrap());
        populate(&mut b, case["b"].as_array().unwrap());
        add_raw(&mut b, &case);
        let da = denotation(&a);
        let db_ = denotation(&b);
        let un = vharness::catch(std::panic::AssertUnwindSafe(|| a.union(&b)));
        let uj = match un {
            Ok(udb) => {
                let d = udb.dictionary.read().unwrap();
                let q = udb.quoted_triple_store.read().unwrap();
                json!({"den": denotation(&udb), "dump": dump(&d, &q)})
            }
            Err(m) => json!({"panic": m}),
        };
        // the operands must be left as they were
        let da2 = denotation(&a);
        let db2 = denotation(&b);
        json!({"a": da, "b": db_, "u": uj, "a_after": da2, "b_after": db2})
    });
    match r {
        Ok(v) => v,
        Err(m) => json!({"panic": m}),
    }
}

fn main() {
    vharness::quiet_panics();
    vharness::run_cases(|case| match case["kind"].as_str() {
        Some("seq") => run_seq(case),
        Some("pair") => run_pair(case),
        _ => json!({"error": "unknown case kind"}),
    });
}
