//! C09 driver: feeds a timestamped stream into the real `CSPARQLWindow` (ReportStrategy::OnWindowClose,
//! Tick::TimeDriven) and reports every firing: index and timestamp of the triggering event and the
//! reported content (items with their latest timestamp, sorted; `last_timestamp_changed`).
//!
//! Three independent instances per case:
//!   "cb"   public API only, consumer = `register_callback`
//!   "ch"   public API only, through `WindowRunner` (consumer = `register()` channel, drained after every push)
//!   "hook" (only when the case asks for "snap") callback + the add-only `verif_*` hooks: snapshot of the
//!          active windows after `scope` (before the item is added) and after the step, and `app_time`.
//!   "both" (when the case lists "drops") ONE window with a `register()` channel consumer AND a `register_callback`
//!          consumer; the Receiver is dropped just before event number d (d = null: never).  Reported: the callback's
//!          firings (a dead channel consumer must not change them: the unmodified code logs the failed send and
//!          continues) and what the channel delivered while its Receiver was alive.
//! Mode "scope": function-level stream for `scope` alone (successive `verif_scope` calls on a fresh window).
use kolibrie::rsp::s2r::{CSPARQLWindow, ContentContainer, Report, ReportStrategy, Tick};
use kolibrie::rsp::window_runner::{WindowRunner, WindowSpec};
use serde_json::{json, Value};
use std::sync::{Arc, Mutex};

fn content_json(c: &ContentContainer<u64>) -> Value {
    let mut items: Vec<(u64, u64)> = c.iter_with_timestamps().map(|(i, t)| (*i, t as u64)).collect();
    items.sort();
    json!({"items": items, "lc": c.get_last_timestamp_changed() as u64, "len": c.len() as u64})
}

fn firing_json(k: usize, t: u64, c: &ContentContainer<u64>) -> Value {
    let mut v = content_json(c);
    v["k"] = json!(k as u64);
    v["t"] = json!(t);
    v
}

fn new_window(w: usize, s: usize) -> CSPARQLWindow<u64> {
    let mut report = Report::new();
    report.add(ReportStrategy::OnWindowClose);
    CSPARQLWindow::new(w, s, report, Tick::TimeDriven, "verif".to_string())
}

fn snapshot(win: &CSPARQLWindow<u64>) -> Value {
    let mut ws: Vec<(u64, u64, Vec<(u64, u64)>, u64)> = win
        .verif_active_windows()
        .into_iter()
        .map(|(o, c, items, lc)| {
            let mut it: Vec<(u64, u64)> = items.into_iter().map(|(i, t)| (i, t as u64)).collect();
            it.sort();
            (o as u64, c as u64, it, lc as u64)
        })
        .collect();
    ws.sort();
    json!(ws)
}

fn events(case: &Value) -> Vec<(u64, u64)> {
    case["evs"]
        .as_array()
        .unwrap()
        .iter()
        .map(|e| (e[0].as_u64().unwrap(), e[1].as_u64().unwrap()))
        .collect()
}

fn run_callback(w: usize, s: usize, evs: &[(u64, u64)]) -> Value {
    let mut win = new_window(w, s);
    let got: Arc<Mutex<Vec<ContentContainer<u64>>>> = Arc::new(Mutex::new(Vec::new()));
    let g2 = Arc::clone(&got);
    win.register_callback(Box::new(move |c| g2.lock().unwrap().push(c)));
    let mut out: Vec<Value> = Vec::new();
    for (k, (x, t)) in evs.iter().enumerate() {
        win.add_to_window(*x, *t as usize);
        for c in got.lock().unwrap().drain(..) {
            out.push(firing_json(k, *t, &c));
        }
    }
    json!(out)
}

fn run_channel(w: usize, s: usize, evs: &[(u64, u64)]) -> Value {
    let spec = WindowSpec { width: w, slide: s, report_strategies: vec![ReportStrategy::OnWindowClose], tick: Tick::TimeDriven };
    let mut runner: WindowRunner<u64> = WindowRunner::new(spec, "verif".to_string());
    runner.start_receiver();
    let mut out: Vec<Value> = Vec::new();
    for (k, (x, t)) in evs.iter().enumerate() {
        runner.push(*x, *t as usize);
        for c in runner.drain() {
            out.push(firing_json(k, *t, &c));
        }
    }
    json!(out)
}

fn run_hook(w: usize, s: usize, evs: &[(u64, u64)]) -> Value {
    let mut win = new_window(w, s);
    let got: Arc<Mutex<Vec<ContentContainer<u64>>>> = Arc::new(Mutex::new(Vec::new()));
    let g2 = Arc::clone(&got);
    win.register_callback(Box::new(move |c| g2.lock().unwrap().push(c)));
    let mut firings: Vec<Value> = Vec::new();
    let mut steps: Vec<Value> = Vec::new();
    for (k, (x, t)) in evs.iter().enumerate() {
        // `scope` only inserts absent windows, so calling it ahead of add_to_window (which calls it again)
        // does not change the step; the "cb"/"ch" instances never do this and must report the same firings.
        win.verif_scope(*t as usize);
        let scoped = snapshot(&win);
        win.add_to_window(*x, *t as usize);
        for c in got.lock().unwrap().drain(..) {
            firings.push(firing_json(k, *t, &c));
        }
        steps.push(json!({"scoped": scoped, "after": snapshot(&win), "app": win.verif_app_time() as u64}));
    }
    json!({"firings": firings, "steps": steps})
}

fn run_both(w: usize, s: usize, evs: &[(u64, u64)], drop_at: Option<usize>) -> Value {
    let mut win = new_window(w, s);
    let mut rx = Some(win.register());
    let got: Arc<Mutex<Vec<ContentContainer<u64>>>> = Arc::new(Mutex::new(Vec::new()));
    let g2 = Arc::clone(&got);
    win.register_callback(Box::new(move |c| g2.lock().unwrap().push(c)));
    let mut cb: Vec<Value> = Vec::new();
    let mut ch: Vec<Value> = Vec::new();
    for (k, (x, t)) in evs.iter().enumerate() {
        if drop_at == Some(k) {
            rx = None; // the consumer hangs up: Receiver dropped, sender still registered in the window
        }
        win.add_to_window(*x, *t as usize);
        for c in got.lock().unwrap().drain(..) {
            cb.push(firing_json(k, *t, &c));
        }
        if let Some(r) = &rx {
            while let Ok(c) = r.try_recv() {
                ch.push(firing_json(k, *t, &c));
            }
        }
    }
    json!({"drop": drop_at.map(|d| d as u64), "cb": cb, "ch": ch})
}

fn run_scope(w: usize, s: usize, tss: &[u64]) -> Value {
    let mut win = new_window(w, s);
    let mut out: Vec<Value> = Vec::new();
    for t in tss {
        win.verif_scope(*t as usize);
        out.push(snapshot(&win));
    }
    json!(out)
}

fn main() {
    vharness::quiet_panics();
    vharness::run_cases(|case| {
        let w = case["w"].as_u64().unwrap() as usize;
        let s = case["s"].as_u64().unwrap() as usize;
        if case["mode"].as_str() == Some("scope") {
            let tss: Vec<u64> = case["ts"].as_array().unwrap().iter().map(|v| v.as_u64().unwrap()).collect();
            return match vharness::catch(move || run_scope(w, s, &tss)) {
                Ok(v) => json!({"scope": v}),
                Err(m) => json!({"panic": m}),
            };
        }
        let evs = events(case);
        let snap = case["snap"].as_bool().unwrap_or(false);
        let drops: Vec<Option<usize>> = case["drops"]
            .as_array()
            .map(|a| a.iter().map(|d| d.as_u64().map(|x| x as usize)).collect())
            .unwrap_or_default();
        let r = vharness::catch(move || {
            let cb = run_callback(w, s, &evs);
            let ch = run_channel(w, s, &evs);
            let hook = if snap { run_hook(w, s, &evs) } else { Value::Null };
            let both: Vec<Value> = drops.iter().map(|d| run_both(w, s, &evs, *d)).collect();
            json!({"cb": cb, "ch": ch, "hook": hook, "both": both})
        });
        match r {
            Ok(v) => v,
            Err(m) => json!({"panic": m}),
        }
    });
}
