//! C12 driver: cross-window incremental reasoning versus recomputation from scratch.
//!
//! A case is a history: a rule set, an optional explicit initial state, and a list of steps
//! (evaluation time + the SDS at that time).  For every step the driver calls the real
//! `incremental_sds_plus` (carrying its own previous result as the state) and the real
//! `naive_sds_plus`, and reports both, canonicalised:
//!   inc   : sorted [component, subject, annotated predicate, object, expiry]   (strings decoded)
//!   ext   : sorted [component, subject, local predicate, object]   (sds_with_expiry_to_external of inc)
//!   naive : sorted [component, subject, local predicate, object]   (multiplicities kept)
//! Only public API of /repo is used; dictionary ids never leave the driver.
use datalog::cross_window_sds::{all_component_iris, sds_with_expiry_to_external, Sds, WindowData, WindowedTriple};
use datalog::reasoning::materialisation::cross_window_incremental::{incremental_sds_plus, SdsWithExpiry};
use datalog::reasoning::materialisation::cross_window_naive::naive_sds_plus;
use serde_json::{json, Value};
use shared::dictionary::Dictionary;
use shared::rule::Rule;
use shared::terms::Term;
use shared::triple::Triple;
use std::collections::HashMap;
use std::sync::{Arc, RwLock};

fn s(v: &Value) -> String {
    v.as_str().expect("string").to_string()
}

fn term(v: &Value, dict: &Arc<RwLock<Dictionary>>) -> Term {
    if let Some(x) = v.get("v") {
        Term::Variable(s(x))
    } else {
        Term::Constant(dict.write().unwrap().encode(v["c"].as_str().expect("const")))
    }
}

fn pattern(v: &Value, dict: &Arc<RwLock<Dictionary>>) -> (Term, Term, Term) {
    let a = v.as_array().expect("pattern");
    (term(&a[0], dict), term(&a[1], dict), term(&a[2], dict))
}

fn build_rules(v: &Value, dict: &Arc<RwLock<Dictionary>>) -> Vec<Rule> {
    v.as_array()
        .map(|rs| {
            rs.iter()
                .map(|r| Rule {
                    premise: r["prem"].as_array().unwrap().iter().map(|p| pattern(p, dict)).collect(),
                    negative_premise: vec![],
                    filters: vec![],
                    conclusion: r["concl"].as_array().unwrap().iter().map(|p| pattern(p, dict)).collect(),
                })
                .collect()
        })
        .unwrap_or_default()
}

fn build_sds(step: &Value) -> Sds {
    let mut sds = Sds::new();
    for w in step["windows"].as_array().unwrap() {
        let triples = w["triples"]
            .as_array()
            .unwrap()
            .iter()
            .map(|t| {
                let a = t.as_array().unwrap();
                WindowedTriple { subject: s(&a[0]), predicate: s(&a[1]), object: s(&a[2]), event_time: a[3].as_u64().unwrap() }
            })
            .collect();
        sds.windows.insert(s(&w["iri"]), WindowData { alpha: w["alpha"].as_u64().unwrap(), triples });
    }
    for g in step["statics"].as_array().unwrap() {
        let triples = g["triples"]
            .as_array()
            .unwrap()
            .iter()
            .map(|t| {
                let a = t.as_array().unwrap();
                (s(&a[0]), s(&a[1]), s(&a[2]))
            })
            .collect();
        sds.static_graphs.insert(s(&g["iri"]), triples);
    }
    for o in step["outputs"].as_array().unwrap() {
        sds.output_iris.insert(s(o));
    }
    sds
}

fn dec(dict: &Arc<RwLock<Dictionary>>, id: u32) -> String {
    dict.read().unwrap().decode(id).map(|x| x.to_string()).unwrap_or_else(|| format!("?{}", id))
}

fn state_out(st: &SdsWithExpiry, dict: &Arc<RwLock<Dictionary>>) -> Value {
    let mut v: Vec<(String, String, String, String, u64)> = Vec::new();
    for (comp, m) in st {
        for (t, e) in m {
            v.push((comp.clone(), dec(dict, t.subject), dec(dict, t.predicate), dec(dict, t.object), *e));
        }
    }
    v.sort();
    json!(v)
}

fn ext_out(m: &HashMap<String, Vec<Triple>>, dict: &Arc<RwLock<Dictionary>>) -> Value {
    let mut v: Vec<(String, String, String, String)> = Vec::new();
    for (comp, ts) in m {
        for t in ts {
            v.push((comp.clone(), dec(dict, t.subject), dec(dict, t.predicate), dec(dict, t.object)));
        }
    }
    v.sort();
    json!(v)
}

fn main() {
    vharness::quiet_panics();
    vharness::run_cases(|case| {
        let case = case.clone();
        let r = vharness::catch(move || {
            let dict = Arc::new(RwLock::new(Dictionary::new()));
            let rules = build_rules(&case["rules"], &dict);
            let mut state: SdsWithExpiry = HashMap::new();
            if let Some(init) = case.get("init_state").and_then(|x| x.as_array()) {
                for ent in init {
                    let a = ent.as_array().unwrap();
                    let t = {
                        let mut d = dict.write().unwrap();
                        Triple { subject: d.encode(a[1].as_str().unwrap()), predicate: d.encode(a[2].as_str().unwrap()), object: d.encode(a[3].as_str().unwrap()) }
                    };
                    state.entry(s(&a[0])).or_default().insert(t, a[4].as_u64().unwrap());
                }
            }
            let repeat = case.get("repeat").and_then(|x| x.as_u64()).unwrap_or(1);
            let mut outs: Vec<Value> = Vec::new();
            for step in case["steps"].as_array().unwrap() {
                let now = step["now"].as_u64().unwrap();
                let sds = build_sds(step);
                let inc = incremental_sds_plus(&rules, &sds, &state, &dict, now);
                // the same call again on fresh hash maps: iteration order must not be observable
                let mut stable = true;
                for _ in 1..repeat {
                    let sds2 = build_sds(step);
                    let st2: SdsWithExpiry = state.iter().map(|(k, m)| (k.clone(), m.iter().map(|(t, e)| (t.clone(), *e)).collect())).collect();
                    let inc2 = incremental_sds_plus(&rules, &sds2, &st2, &dict, now);
                    if state_out(&inc2, &dict) != state_out(&inc, &dict) {
                        stable = false;
                    }
                }
                let naive = naive_sds_plus(&rules, &sds, &dict, now);
                let iris = all_component_iris(&sds);
                let ext = sds_with_expiry_to_external(&inc, &dict, &iris);
                outs.push(json!({"now": now, "inc": state_out(&inc, &dict), "ext": ext_out(&ext, &dict), "naive": ext_out(&naive, &dict), "stable": stable}));
                state = inc;
            }
            outs
        });
        match r {
            Ok(outs) => json!({"outs": outs}),
            Err(m) => json!({"panic": m}),
        }
    });
}
