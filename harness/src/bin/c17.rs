//! C17 driver: query entry points cannot modify data; string entry points fail cleanly.
//!
//! Two kinds of cases:
//!  * {"mode":"render","input":s,"start":p|null,"len":n,"code":k}: function-level, `format_parse_error` with the
//!    error slice input[p..p+n] (or, for null, a slice of n bytes outside the input) through the hook
//!    `verif_c17_format_parse_error`; reports panic / the rendered text.
//!  * {"mode":"entry","setup":[updates],"empty_graphs":[iris],"db_prefixes":[[p,iri]],"steps":[{"via":..,"text":..}]}:
//!    builds a database state with the real update engine, then runs each step through one entry
//!    point and reports the outcome enum together with a complete before/after comparison of all
//!    quads (every graph) and of the graph catalog, plus the other side effects the model talks
//!    about (registered prefixes, statistics cache, dictionary growth).
//! via: "query" (execute_sparql_query), "update" (execute_sparql_update), "db_update"
//! (SparqlDatabase::execute_update), "handle_update", "handle_query", "http" (handle_http_request, text = raw request).
use kolibrie::execute_query::{
    execute_sparql_query, execute_sparql_update, verif_c17_format_parse_error, verif_c17_parse_info,
};
use kolibrie::sparql_database::SparqlDatabase;
use serde_json::{json, Value};
use shared::dataset_index::GraphId;
use std::panic::AssertUnwindSafe;

#[derive(Clone, PartialEq, Eq, Debug)]
struct Snap {
    quads: Vec<[String; 4]>,
    graphs: Vec<String>,
    prefixes: Vec<(String, String)>,
    stats: bool,
    dict: Vec<(u32, String)>,
}

fn dec(db: &SparqlDatabase, id: u32) -> String {
    db.decode_any(id).unwrap_or_else(|| format!("#{}", id))
}
fn gname(db: &SparqlDatabase, g: GraphId) -> String {
    match g {
        GraphId::Default => "".to_string(),
        GraphId::Named(n) => dec(db, n),
    }
}
fn snap(db: &SparqlDatabase) -> Snap {
    let mut quads: Vec<[String; 4]> = db
        .dataset_index
        .all_quads()
        .into_iter()
        .map(|q| [dec(db, q.subject), dec(db, q.predicate), dec(db, q.object), gname(db, q.graph)])
        .collect();
    quads.sort();
    let mut graphs: Vec<String> = db.dataset_index.graphs().into_iter().map(|g| gname(db, g)).collect();
    graphs.sort();
    let mut prefixes: Vec<(String, String)> = db.prefixes.iter().map(|(a, b)| (a.clone(), b.clone())).collect();
    prefixes.sort();
    let mut dict: Vec<(u32, String)> = db
        .dictionary
        .read()
        .map(|d| d.id_to_string.iter().map(|(a, b)| (*a, b.clone())).collect())
        .unwrap_or_default();
    dict.sort();
    Snap { quads, graphs, prefixes, stats: db.cached_stats.is_some(), dict }
}

fn diff<T: Clone + PartialEq>(a: &[T], b: &[T]) -> (Vec<T>, Vec<T>) {
    let removed = a.iter().filter(|x| !b.contains(x)).cloned().collect();
    let added = b.iter().filter(|x| !a.contains(x)).cloned().collect();
    (removed, added)
}

fn clip(s: &str) -> String {
    s.chars().take(400).collect()
}

fn parse_info(text: &str, aliases: bool) -> Value {
    match vharness::catch(AssertUnwindSafe(|| verif_c17_parse_info(text, aliases))) {
        Ok(i) => json!({
            "kind": i.kind, "prefixes": i.prefixes, "model_decls": i.model_decls,
            "neural_decls": i.neural_relation_decls, "train_decls": i.train_decls,
            "has_rule": i.has_rule, "has_ml_predict": i.has_ml_predict,
            "err_start": i.err_start, "err_len": i.err_len, "err_code": i.err_code,
        }),
        Err(m) => json!({"kind": "parser_panic", "msg": clip(&m)}),
    }
}

fn main() {
    vharness::quiet_panics();
    vharness::run_cases(|case| {
        let mode = case["mode"].as_str().unwrap_or("entry");
        if mode == "render" {
            let input = case["input"].as_str().unwrap().to_string();
            let start = case["start"].as_u64().map(|x| x as usize);
            let len = case["len"].as_u64().unwrap() as usize;
            let code = case["code"].as_u64().unwrap_or(0) as u8;
            return match vharness::catch(move || verif_c17_format_parse_error(&input, start, len, code)) {
                Ok(s) => json!({"outcome": "ok", "text": s}),
                Err(m) => json!({"outcome": "panic", "msg": clip(&m)}),
            };
        }
        let mut db = SparqlDatabase::new();
        // ---- build the state ----
        let mut setup_errors: Vec<String> = Vec::new();
        for u in case["setup"].as_array().cloned().unwrap_or_default() {
            let u = u.as_str().unwrap().to_string();
            match vharness::catch(AssertUnwindSafe(|| execute_sparql_update(&u, &mut db))) {
                Ok(Ok(_)) => {}
                Ok(Err(e)) => setup_errors.push(clip(&e)),
                Err(m) => setup_errors.push(format!("panic: {}", clip(&m))),
            }
        }
        for g in case["empty_graphs"].as_array().cloned().unwrap_or_default() {
            let id = db.dictionary.write().unwrap().encode(g.as_str().unwrap());
            db.dataset_index.create_graph(GraphId::Named(id));
        }
        for p in case["db_prefixes"].as_array().cloned().unwrap_or_default() {
            db.prefixes.insert(p[0].as_str().unwrap().to_string(), p[1].as_str().unwrap().to_string());
        }
        if case["warm_stats"].as_bool().unwrap_or(false) {
            db.get_or_build_stats();
        }
        let initial = snap(&db);
        let mut outs: Vec<Value> = Vec::new();
        let mut dead = false;
        for step in case["steps"].as_array().cloned().unwrap_or_default() {
            if dead {
                outs.push(json!({"outcome": "skipped"}));
                continue;
            }
            let via = step["via"].as_str().unwrap().to_string();
            let text = step["text"].as_str().unwrap().to_string();
            let sparql = step["sparql"].as_str().map(|s| s.to_string()).unwrap_or_else(|| text.clone());
            let before = snap(&db);
            let info_std = parse_info(&sparql, false);
            let info_compat = parse_info(&sparql, true);
            let r: Result<(String, Value), String> = vharness::catch(AssertUnwindSafe(|| match via.as_str() {
                "query" => match execute_sparql_query(&text, &mut db) {
                    Ok(rows) => ("ok".to_string(), json!({"rows": rows.len()})),
                    Err(e) => ("err".to_string(), json!({"msg": clip(&e)})),
                },
                "update" => match execute_sparql_update(&text, &mut db) {
                    Ok(s) => ("ok".to_string(), json!({"ins": s.inserted_quads, "del": s.deleted_quads})),
                    Err(e) => ("err".to_string(), json!({"msg": clip(&e)})),
                },
                "db_update" => match db.execute_update(&text) {
                    Ok(s) => ("ok".to_string(), json!({"ins": s.inserted_quads, "del": s.deleted_quads})),
                    Err(e) => ("err".to_string(), json!({"msg": clip(&e)})),
                },
                "handle_update" => {
                    let s = db.handle_update(&text);
                    (if s.starts_with("Update Successful") { "ok" } else { "err" }.to_string(), json!({"msg": clip(&s)}))
                }
                "handle_query" => {
                    let s = db.handle_query(&text);
                    (if s.starts_with("Invalid query format") { "err" } else { "ok" }.to_string(), json!({"msg": clip(&s)}))
                }
                "http" => {
                    let s = db.handle_http_request(&text);
                    let o = if s.starts_with("Query Failed") || s == "Update Failed" || s == "Bad Request" { "err" } else { "ok" };
                    (o.to_string(), json!({"msg": clip(&s)}))
                }
                other => panic!("unknown via {}", other),
            }));
            let after = match vharness::catch(AssertUnwindSafe(|| snap(&db))) {
                Ok(s) => s,
                Err(_) => {
                    dead = true;
                    before.clone()
                }
            };
            let (q_removed, q_added) = diff(&before.quads, &after.quads);
            let (g_removed, g_added) = diff(&before.graphs, &after.graphs);
            let dict_kept = before.dict.iter().all(|e| after.dict.binary_search(e).is_ok());
            let mut o = json!({
                "via": via,
                "quads_removed": q_removed, "quads_added": q_added,
                "graphs_removed": g_removed, "graphs_added": g_added,
                "quads_before": before.quads, "graphs_before": before.graphs,
                "quads_after": after.quads, "graphs_after": after.graphs,
                "prefixes_before": before.prefixes, "prefixes_after": after.prefixes,
                "stats_before": before.stats, "stats_after": after.stats,
                "dict_before": before.dict.len(), "dict_after": after.dict.len(), "dict_kept": dict_kept,
                "parse_std": info_std, "parse_compat": info_compat,
            });
            match r {
                Ok((outcome, extra)) => {
                    o["outcome"] = json!(outcome);
                    o["extra"] = extra;
                }
                Err(m) => {
                    o["outcome"] = json!("panic");
                    o["extra"] = json!({"msg": clip(&m)});
                    dead = true;
                }
            }
            outs.push(o);
        }
        json!({"steps": outs, "setup_errors": setup_errors,
               "initial": {"n_quads": initial.quads.len(), "graphs": initial.graphs, "quads": initial.quads}})
    });
}
