//! C18 driver: backward chaining of the real Reasoner.
//!
//! Case (`"kind":"bc"`, default): {"dict":[strings in id order], "facts":[[s,p,o]..],
//!   "rules":[{"prem":[atom..],"concl":[atom..],"filt":[{"x":name,"op":">","num":z} | {"x":name,"op":"!=","var":name}..]}], "goal":atom}
//!   atom = [term,term,term], term = ["v", "<variable name>"] | ["c", id].
//!   Output: {"answers":[atom..]} - for every binding map returned by `Reasoner::backward_chaining`, the goal with
//!   `resolve_term` applied to each of its three positions (the property's observable), sorted, multiplicities kept.
//!   With "forward":true the same program is also materialised by `infer_new_facts_semi_naive` on a second
//!   Reasoner and the store is returned as "forward" (a second opinion, used when a known-finding witness is replayed).
//! Case (`"kind":"resolve"`): function-level stream for the public `resolve_term`:
//!   {"bindings":[[name, term]..], "terms":[term..]} -> {"resolved":[term..]}.  The generator only produces acyclic
//!   binding maps (a cyclic map makes the real function recurse until the stack overflows).
//! Only public API of /repo is used (no hook needed).
//!
//! Resource guard: a changed engine may make the depth-limited search explode (time and memory).  A watchdog thread
//! ends the process (exit code 3) when one case runs longer than C18_CASE_LIMIT_S seconds (default 20), after writing
//! {"timeout":true} for that case; results are flushed line by line, so earlier results survive and the check
//! re-runs the cases that were not reached.
use datalog::reasoning::backward_chaining::resolve_term;
use datalog::reasoning::Reasoner;
use serde_json::{json, Value};
use shared::rule::{FilterCondition, Rule};
use shared::terms::{Term, TriplePattern};
use shared::triple::Triple;
use std::collections::HashMap;

fn term(v: &Value) -> Term {
    let a = v.as_array().unwrap();
    match a[0].as_str().unwrap() {
        "v" => Term::Variable(a[1].as_str().unwrap().to_string()),
        "c" => Term::Constant(a[1].as_u64().unwrap() as u32),
        other => panic!("bad term tag {}", other),
    }
}
fn atom(v: &Value) -> TriplePattern {
    let a = v.as_array().unwrap();
    (term(&a[0]), term(&a[1]), term(&a[2]))
}
fn atoms(v: &Value) -> Vec<TriplePattern> {
    v.as_array().map(|l| l.iter().map(atom).collect()).unwrap_or_default()
}
fn filter(v: &Value) -> FilterCondition {
    let value = match v.get("var").and_then(|y| y.as_str()) {
        Some(y) => y.to_string(),
        None => format!("{}", v["num"].as_i64().unwrap()),
    };
    FilterCondition {
        variable: v["x"].as_str().unwrap().to_string(),
        operator: v["op"].as_str().unwrap().to_string(),
        value,
    }
}
fn rule(v: &Value) -> Rule {
    Rule {
        premise: atoms(&v["prem"]),
        negative_premise: vec![],
        filters: v["filt"].as_array().map(|l| l.iter().map(filter).collect()).unwrap_or_default(),
        conclusion: atoms(&v["concl"]),
    }
}
fn triple(v: &Value) -> Triple {
    let a = v.as_array().unwrap();
    Triple { subject: a[0].as_u64().unwrap() as u32, predicate: a[1].as_u64().unwrap() as u32, object: a[2].as_u64().unwrap() as u32 }
}
fn out_term(t: &Term) -> Value {
    match t {
        Term::Variable(n) => json!(["v", n]),
        Term::Constant(c) => json!(["c", c]),
        Term::QuotedTriple(_) => json!(["q", "quoted"]),
    }
}

fn build(case: &Value) -> Result<Reasoner, String> {
    let mut r = Reasoner::new();
    {
        let mut d = r.dictionary.write().unwrap();
        for (i, s) in case["dict"].as_array().unwrap().iter().enumerate() {
            let id = d.encode(s.as_str().unwrap());
            if id as usize != i {
                return Err(format!("dictionary id {} for entry {}", id, i));
            }
        }
    }
    for f in case["facts"].as_array().unwrap() {
        r.insert_ground_triple(triple(f));
    }
    for ru in case["rules"].as_array().unwrap() {
        r.try_add_rule(rule(ru)).map_err(|e| format!("rule rejected: {}", e))?;
    }
    Ok(r)
}

fn bc_case(case: &Value) -> Value {
    let c = case.clone();
    let res = vharness::catch(move || {
        let r = match build(&c) {
            Ok(r) => r,
            Err(e) => return json!({"rejected": e}),
        };
        let goal = atom(&c["goal"]);
        let results = r.backward_chaining(&goal);
        let mut rendered: Vec<(String, Value)> = results
            .iter()
            .map(|b| {
                let inst = json!([
                    out_term(&resolve_term(&goal.0, b)),
                    out_term(&resolve_term(&goal.1, b)),
                    out_term(&resolve_term(&goal.2, b))
                ]);
                (inst.to_string(), inst)
            })
            .collect();
        rendered.sort_by(|a, b| a.0.cmp(&b.0));
        let mut out = json!({"answers": rendered.into_iter().map(|e| e.1).collect::<Vec<Value>>()});
        if c["forward"].as_bool().unwrap_or(false) {
            let mut r2 = build(&c).unwrap();
            r2.infer_new_facts_semi_naive();
            let mut all: Vec<[u64; 3]> = r2
                .dataset_index
                .query(None, None, None)
                .iter()
                .map(|t| [t.subject as u64, t.predicate as u64, t.object as u64])
                .collect();
            all.sort();
            out["forward"] = json!(all);
        }
        out
    });
    match res {
        Ok(v) => v,
        Err(m) => json!({"panic": m}),
    }
}

fn resolve_case(case: &Value) -> Value {
    let c = case.clone();
    let res = vharness::catch(move || {
        let mut b: HashMap<String, Term> = HashMap::new();
        for e in c["bindings"].as_array().unwrap() {
            let e = e.as_array().unwrap();
            b.insert(e[0].as_str().unwrap().to_string(), term(&e[1]));
        }
        let out: Vec<Value> = c["terms"].as_array().unwrap().iter().map(|t| out_term(&resolve_term(&term(t), &b))).collect();
        json!({"resolved": out})
    });
    match res {
        Ok(v) => v,
        Err(m) => json!({"panic": m}),
    }
}

fn main() {
    use std::io::{BufRead, BufReader, Write};
    use std::sync::atomic::{AtomicU64, Ordering};
    use std::sync::{Arc, Mutex};
    vharness::quiet_panics();
    let args: Vec<String> = std::env::args().collect();
    if args.len() < 3 {
        eprintln!("usage: {} <cases.jsonl> <results.jsonl>", args[0]);
        std::process::exit(2);
    }
    let limit_ms: u64 = std::env::var("C18_CASE_LIMIT_S").ok().and_then(|s| s.parse::<u64>().ok()).unwrap_or(20) * 1000;
    let inp = BufReader::new(std::fs::File::open(&args[1]).expect("open cases"));
    let out = Arc::new(Mutex::new(std::fs::File::create(&args[2]).expect("create results")));
    let t0 = std::time::Instant::now();
    // 0 = no case running; otherwise the start time of the running case in ms since t0, plus 1
    let started = Arc::new(AtomicU64::new(0));
    {
        let started = started.clone();
        let out = out.clone();
        std::thread::spawn(move || loop {
            std::thread::sleep(std::time::Duration::from_millis(100));
            let s = started.load(Ordering::SeqCst);
            if s != 0 && (t0.elapsed().as_millis() as u64 + 1).saturating_sub(s) > limit_ms {
                let mut f = out.lock().unwrap();
                // the main thread clears `started` under the same lock before it writes a result
                if started.load(Ordering::SeqCst) == s {
                    let _ = writeln!(f, "{}", json!({"timeout": true, "limit_ms": limit_ms}));
                    let _ = f.flush();
                    std::process::exit(3);
                }
            }
        });
    }
    for line in inp.lines() {
        let line = line.expect("read");
        if line.trim().is_empty() {
            continue;
        }
        let case: Value = serde_json::from_str(&line).expect("case json");
        started.store(t0.elapsed().as_millis() as u64 + 1, Ordering::SeqCst);
        let res = match case["kind"].as_str().unwrap_or("bc") {
            "resolve" => resolve_case(&case),
            _ => bc_case(&case),
        };
        let mut f = out.lock().unwrap();
        started.store(0, Ordering::SeqCst);
        writeln!(f, "{}", serde_json::to_string(&res).unwrap()).unwrap();
        f.flush().unwrap();
    }
}
