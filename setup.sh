#!/bin/sh
# Build everything the checks need, offline, from files on disk: all Coq projects (full .vo builds)
# and the Rust harness against /repo's current working tree (hooks on).
set -e
cd "$(dirname "$0")"
export CARGO_NET_OFFLINE=true
for d in coq/*/; do
  if [ -f "$d/_CoqProject" ]; then
    (cd "$d" && coq_makefile -f _CoqProject -o Makefile.coq >/dev/null && timeout 3000 make -f Makefile.coq -j16 >/dev/null) || echo "setup: coq project $d failed to build (the property check will report it)"
  fi
done
mkdir -p .cache
cp /repo/Cargo.lock harness/Cargo.lock
(cd harness && RUSTFLAGS="--cfg kolibrie_verif" CARGO_TARGET_DIR="$PWD/../.cache/target" timeout 3000 cargo build --offline --bins) || echo "setup: harness build failed"
echo "setup done"
