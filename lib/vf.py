"""Framework shared by every per-property check (see DESIGN.md sections 2.3, 3, 4, 10).

A check module (checks/cXX.py) defines `run(ctx)`; it uses the helpers below to
  1. build the property's Coq project and audit its `Print Assumptions` output      (ctx.coq)
  2. build the Rust harness against /repo's current working tree with the hook cfg   (ctx.harness)
  3. run the implementation and the Gallina model on the same cases                  (ctx.run_impl / ctx.run_model)
  4. record disagreements, specification violations and known findings              (ctx.violation / ctx.broken / ctx.known)
and `ctx.finish()` writes evidence/<id>.json, replay files, the VIOLATION / KNOWN-FINDING lines
and picks the exit code.
"""
import concurrent.futures
import hashlib
import json
import os
import random
import re
import shutil
import subprocess
import sys
import time

VERIF = os.path.dirname(os.path.dirname(os.path.abspath(__file__)))
REPO = os.environ.get("VERIF_REPO", "/repo")
CACHE = os.path.join(VERIF, ".cache")
GUARD = "kolibrie_verif"
NPROC = int(os.environ.get("VERIF_JOBS", "16"))
try:  # development-time throttle (file is not committed): many developers share the machine
    NPROC = int(open(os.path.join(CACHE, "jobs")).read().strip())
except Exception:
    pass
DEFAULT_SEED = 20260925

# Axioms a property theorem may depend on (standard library only; each is named in DESIGN.md section 5).
AXIOM_ALLOW = {
    "functional_extensionality_dep",
    "FunctionalExtensionality.functional_extensionality_dep",
    "Eqdep.Eq_rect_eq.eq_rect_eq",
    "Coq.Logic.Eqdep.Eq_rect_eq.eq_rect_eq",
    "eq_rect_eq",
    "Classical_Prop.classic",
    "classic",
    "ClassicalDedekindReals.sig_forall_dec",
    "ClassicalDedekindReals.sig_not_dec",
    "proof_irrelevance",
    "JMeq_eq",
}

FORBIDDEN = re.compile(
    r"\b(Admitted|admit|Axiom|Axioms|Parameter|Parameters|Conjecture|Conjectures|Abort All)\b"
    r"|Unset\s+Guard|Unset\s+Positivity|Unset\s+Universe|bypass_check|type-in-type|impredicative-set"
    r"|Admit\s+Obligations|give_up"
)


def sh(cmd, cwd=None, timeout=None, env=None, stdin=None):
    e = os.environ.copy()
    if env:
        e.update(env)
    try:
        p = subprocess.run(cmd, cwd=cwd, shell=isinstance(cmd, str), stdout=subprocess.PIPE,
                           stderr=subprocess.STDOUT, timeout=timeout, env=e, input=stdin)
        return p.returncode, p.stdout.decode("utf-8", "replace")
    except subprocess.TimeoutExpired as ex:
        out = ex.stdout.decode("utf-8", "replace") if ex.stdout else ""
        return 124, out + "\n[timeout after %ss]" % timeout


# ----------------------------------------------------------------------------------------------
# Parsing what Coq prints for `Eval vm_compute in <term>.`
# ----------------------------------------------------------------------------------------------
_TOK = re.compile(r'\s*(?:(-?\d+)|([A-Za-z_][A-Za-z_0-9\.\']*)|("(?:[^"]|"")*")|(%[A-Za-z_]+)|([\[\]\(\);,]))')


def _tokens(s):
    pos, out = 0, []
    while pos < len(s):
        m = _TOK.match(s, pos)
        if not m:
            if s[pos:].strip() == "":
                break
            raise ValueError("cannot tokenise Coq output at: %r" % s[pos:pos + 40])
        pos = m.end()
        if m.group(1) is not None:
            out.append(("n", int(m.group(1))))
        elif m.group(2) is not None:
            out.append(("i", m.group(2)))
        elif m.group(3) is not None:
            out.append(("s", m.group(3)[1:-1].replace('""', '"')))
        elif m.group(4) is not None:
            continue  # scope annotation
        else:
            out.append(("p", m.group(5)))
    return out


def parse_coq(s):
    """Coq value syntax -> Python: numbers -> int, [a; b] -> list, (a, b) -> tuple, true/false -> bool,
    None -> None, `C x y` -> ("C", x, y), strings -> str."""
    toks = _tokens(s)
    i = 0

    def peek():
        return toks[i] if i < len(toks) else (None, None)

    def atom():
        nonlocal i
        k, v = peek()
        if k == "n":
            i += 1
            return v
        if k == "s":
            i += 1
            return v
        if k == "i":
            i += 1
            if v == "true":
                return True
            if v == "false":
                return False
            if v == "None":
                return None
            if v == "nil":
                return []
            return ("@", v)
        if (k, v) == ("p", "("):
            i += 1
            items = [app()]
            while peek() == ("p", ","):
                i += 1
                items.append(app())
            if peek() != ("p", ")"):
                raise ValueError("expected ) in %r" % s[:80])
            i += 1
            return items[0] if len(items) == 1 else tuple(items)
        if (k, v) == ("p", "["):
            i += 1
            items = []
            if peek() == ("p", "]"):
                i += 1
                return items
            items.append(app())
            while peek() == ("p", ";"):
                i += 1
                items.append(app())
            if peek() != ("p", "]"):
                raise ValueError("expected ] in %r" % s[:80])
            i += 1
            return items
        raise ValueError("unexpected token %r in %r" % ((k, v), s[:80]))

    def is_atom_start():
        k, v = peek()
        return k in ("n", "s", "i") or (k == "p" and v in "([")

    def app():
        head = atom()
        args = []
        while is_atom_start():
            args.append(atom())
        if isinstance(head, tuple) and len(head) == 2 and head[0] == "@":
            if not args:
                return head[1] if head[1] not in ("tt",) else ()
            return (head[1],) + tuple(args)
        if args:
            raise ValueError("application of non-identifier in %r" % s[:80])
        return head

    v = app()
    if i != len(toks):
        raise ValueError("trailing tokens in %r" % s[:80])
    return v


def coq_N(n):
    return "%d%%N" % n


def coq_Z(n):
    return "(%d)%%Z" % n


def coq_list(items):
    return "[" + "; ".join(items) + "]"


def coq_bool(b):
    return "true" if b else "false"


def coq_opt(x):
    return "None" if x is None else "(Some %s)" % x


# ----------------------------------------------------------------------------------------------
class Ctx:
    def __init__(self, prop, tier, seed):
        self.prop = prop
        self.tier = tier
        self.seed = seed
        self.rng = random.Random(seed ^ int(hashlib.sha256(prop.encode()).hexdigest()[:8], 16))
        self.t0 = time.time()
        self.coverage = {"evaluations": 0, "distinct_nontrivial": 0, "samples": [], "trusted_base": []}
        self.assumptions = []
        self.violations = []      # (case, detail)  -- with a concrete failing input against the Spec
        self.brokens = []         # (kind, name, detail, case) -- obligation no longer checks
        self.known_lines = []
        self.streams = {}
        self.thorough = tier == "thorough"
        # per-run scratch directory (several runs of one property may overlap during development)
        self.work = os.path.join(CACHE, "work", prop, "run%d" % os.getpid())
        os.makedirs(self.work, exist_ok=True)
        self._known = None
        self._distinct = set()

    # -- known findings ---------------------------------------------------------------------
    def known_findings(self):
        if self._known is None:
            with open(os.path.join(VERIF, "known_findings.json")) as f:
                kf = json.load(f)
            self._known = [k for k in kf.get("findings", []) if k["property"] == self.prop and k.get("status") == "open"]
        return self._known

    def known(self, fid, what):
        line = "KNOWN-FINDING: property=%s %s: %s" % (self.prop, fid, what)
        if line not in self.known_lines:
            self.known_lines.append(line)

    # -- recording --------------------------------------------------------------------------
    def log(self, *a):
        print("[%s %6.1fs]" % (self.prop, time.time() - self.t0), *a, flush=True)

    def count(self, n=1):
        self.coverage["evaluations"] += n

    def nontrivial(self, key):
        """Count a case as distinct and non-trivial (the caller applies the rule)."""
        h = hashlib.sha1(repr(key).encode()).digest()[:10]
        self._distinct.add(h)

    def sample(self, case, limit=4):
        if len(self.coverage["samples"]) < limit:
            self.coverage["samples"].append(case)

    def stream(self, name, **kw):
        d = self.streams.setdefault(name, {})
        for k, v in kw.items():
            if isinstance(v, (int, float)) and isinstance(d.get(k), (int, float)):
                d[k] += v
            else:
                d[k] = v

    def violation(self, case, detail):
        self.violations.append((case, detail))

    def broken(self, kind, name, detail, case=None):
        """An obligation (proof, audit, correspondence stream) no longer checks."""
        self.brokens.append((kind, name, detail, case))

    # -- Coq --------------------------------------------------------------------------------
    def coq_build(self, sub, timeout=1500):
        d = os.path.join(VERIF, "coq", sub)
        if not os.path.exists(os.path.join(d, "Makefile.coq")) or \
                os.path.getmtime(os.path.join(d, "_CoqProject")) > os.path.getmtime(os.path.join(d, "Makefile.coq")):
            rc, out = sh("coq_makefile -f _CoqProject -o Makefile.coq", cwd=d, timeout=120)
            if rc != 0:
                return False, out
        rc, out = sh("make -f Makefile.coq -j%d" % NPROC, cwd=d, timeout=timeout)
        return rc == 0, out

    def coq(self, sub, prop_file, deps=()):
        """Build project coq/<sub> (after its deps), re-check prop_file and audit its assumptions.
        Returns (obligations, discharged).  Failures are recorded with ctx.broken."""
        t = time.time()
        for dsub in list(deps) + [sub]:
            ok, out = self.coq_build(dsub)
            if not ok:
                tail = "\n".join(out.splitlines()[-25:])
                m = re.search(r'File "([^"]+)", line (\d+)', out)
                self.broken("proof", "coq/%s build" % dsub, "Coq project no longer compiles: " + tail,
                            {"file": m.group(1) if m else None, "line": int(m.group(2)) if m else None})
                self.coverage.update(obligations=self._count_obligations(sub, prop_file), discharged=0,
                                     checker_cmd="make -f Makefile.coq (coqc 8.16.1) in coq/%s" % sub)
                return self.coverage["obligations"], 0
        d = os.path.join(VERIF, "coq", sub)
        # forbidden constructs anywhere in the project
        bad = []
        for dsub in list(deps) + [sub]:
            dd = os.path.join(VERIF, "coq", dsub)
            for fn in sorted(os.listdir(dd)):
                if fn.endswith(".v"):
                    txt = strip_coq_comments(open(os.path.join(dd, fn)).read())
                    for m in FORBIDDEN.finditer(txt):
                        bad.append("%s/%s: %s" % (dsub, fn, m.group(0)))
        if bad:
            self.broken("audit", "forbidden-constructs", "; ".join(bad[:10]))
        # re-check the property file, capturing Print Assumptions output
        flags = coqproject_flags(d)
        os.makedirs(os.path.join(self.work, "audit"), exist_ok=True)
        tmpo = os.path.join(self.work, "audit", "%s.vo" % os.path.splitext(prop_file)[0])
        rc, out = sh(["coqc"] + flags + ["-o", tmpo, prop_file], cwd=d, timeout=600)
        n_obl = self._count_obligations(sub, prop_file)
        if rc != 0:
            self.broken("proof", "%s/%s" % (sub, prop_file), "property file does not re-check: " + out[-1500:])
            self.coverage.update(obligations=n_obl, discharged=0,
                                 checker_cmd="coqc %s %s" % (" ".join(flags), prop_file))
            return n_obl, 0
        closed, axioms, bad_ax = parse_assumptions(out)
        discharged = closed + len(axioms) - len(bad_ax)
        if bad_ax:
            self.broken("audit", "assumptions", "theorems depend on non-allow-listed axioms: %s" % bad_ax)
        if closed + len(axioms) != n_obl:
            self.broken("audit", "assumption-count",
                        "expected %d Print Assumptions results, got %d" % (n_obl, closed + len(axioms)))
            discharged = min(discharged, n_obl)
        used = sorted({a for ax in axioms for a in ax})
        self.coverage.update(
            obligations=n_obl, discharged=discharged,
            checker_cmd="cd coq/%s && make -f Makefile.coq && coqc %s %s  (Coq 8.16.1 kernel; Print Assumptions audited)"
                        % (sub, " ".join(flags), prop_file),
            theorems=theorem_names(os.path.join(d, prop_file)),
            axioms_used=used or ["none: every property theorem is closed under the global context"],
        )
        if self.thorough and os.environ.get("VERIF_COQCHK", "1") == "1":
            mods = [("KV.%s." % sub) + os.path.splitext(prop_file)[0]]
            rc, out = sh(["coqchk", "-silent", "-o"] + flags + mods, cwd=d, timeout=1800)
            self.coverage["coqchk"] = "ok" if rc == 0 else "FAILED"
            axl = re.findall(r"^\s+([A-Za-z_][\w\.]*)\s*$", out.split("Axioms:")[-1], re.M) if "Axioms:" in out else []
            self.coverage["coqchk_axioms"] = axl
            if rc != 0:
                self.broken("audit", "coqchk", out[-1500:])
        self.log("coq %s: %d/%d obligations discharged in %.1fs" % (sub, discharged, n_obl, time.time() - t))
        return n_obl, discharged

    def _count_obligations(self, sub, prop_file):
        txt = strip_coq_comments(open(os.path.join(VERIF, "coq", sub, prop_file)).read())
        return len(re.findall(r"^\s*Print Assumptions\b", txt, re.M))

    def run_model(self, sub, requires, exprs, deps=(), timeout=900, chunk=None, preamble=""):
        """Evaluate Coq expressions with vm_compute (sharded over NPROC coqc processes).
        Returns a list of parsed values (or ("ERROR", msg) for a shard that failed)."""
        d = os.path.join(VERIF, "coq", sub)
        flags = coqproject_flags(d)
        flags = [os.path.join(d, f) if (i > 0 and flags[i - 1] in ("-Q", "-R") and not os.path.isabs(f)) else f
                 for i, f in enumerate(flags)]
        n = len(exprs)
        if n == 0:
            return []
        if chunk is None:
            chunk = max(1, min(400, (n + NPROC - 1) // NPROC))
        shards = [list(range(i, min(n, i + chunk))) for i in range(0, n, chunk)]
        wd = os.path.join(self.work, "cases")
        shutil.rmtree(wd, ignore_errors=True)
        os.makedirs(wd)
        results = [None] * n

        def one(k):
            idxs = shards[k]
            fn = os.path.join(wd, "cases_%d.v" % k)
            with open(fn, "w") as f:
                f.write("".join("Require Import %s.\n" % r for r in requires))
                f.write("Require Import List NArith ZArith String. Import ListNotations.\n")
                f.write("Set Printing Width 10000000. Set Printing Depth 10000000.\n")
                f.write(preamble + "\n")
                for i in idxs:
                    f.write("Eval vm_compute in (%d%%N, %s).\n" % (i, exprs[i]))
            rc, out = sh(["coqc", "-noglob"] + flags + ["-o", os.path.join(wd, "cases_%d.vo" % k), fn], cwd=wd, timeout=timeout)
            vals = {}
            for m in re.finditer(r"^\s+= (.*)$", out, re.M):
                try:
                    v = parse_coq(m.group(1))
                    vals[v[0]] = v[1]
                except Exception as ex:  # noqa
                    return k, ("ERROR", "unparsable model output: %s: %s" % (ex, m.group(1)[:200])), vals
            if rc != 0 or len(vals) != len(idxs):
                return k, ("ERROR", "coqc rc=%s: %s" % (rc, out[-800:])), vals
            return k, None, vals

        with concurrent.futures.ThreadPoolExecutor(max_workers=NPROC) as ex:
            for k, err, vals in ex.map(one, range(len(shards))):
                for i in shards[k]:
                    results[i] = vals.get(i, err if err else ("ERROR", "missing"))
        return results

    # -- Rust harness -----------------------------------------------------------------------
    def harness(self, binname, timeout=2400):
        """(Re)build the harness against /repo's current working tree with the hook cfg; returns the binary path."""
        t = time.time()
        hd = os.path.join(VERIF, "harness")
        env = {"CARGO_NET_OFFLINE": "true", "RUSTFLAGS": "--cfg %s" % GUARD,
               "CARGO_TARGET_DIR": os.path.join(CACHE, "target"), "CARGO_BUILD_JOBS": str(NPROC)}
        lock = os.path.join(hd, "Cargo.lock")
        if not os.path.exists(lock):
            shutil.copy(os.path.join(REPO, "Cargo.lock"), lock)
        rc, out = sh(["cargo", "build", "--offline", "--bin", binname], cwd=hd, timeout=timeout, env=env)
        if rc != 0:
            print(out[-4000:])
            print("[%s] harness build failed (infrastructure error, not a verdict)" % self.prop)
            sys.exit(2)
        self.log("harness %s built in %.1fs" % (binname, time.time() - t))
        return os.path.join(CACHE, "target", "debug", binname)

    def run_impl(self, binpath, cases, shards=None, timeout=1800, env=None, args=()):
        """Run the implementation driver on JSON cases; returns one JSON result per case (None if the driver died)."""
        n = len(cases)
        if n == 0:
            return []
        if shards is None:
            shards = min(NPROC, max(1, n // 8))
        wd = os.path.join(self.work, "impl")
        os.makedirs(wd, exist_ok=True)
        bounds = [(k * n // shards, (k + 1) * n // shards) for k in range(shards)]
        results = [None] * n

        def one(k):
            lo, hi = bounds[k]
            ci = os.path.join(wd, "in_%s_%d.jsonl" % (os.path.basename(binpath), k))
            co = os.path.join(wd, "out_%s_%d.jsonl" % (os.path.basename(binpath), k))
            with open(ci, "w") as f:
                for c in cases[lo:hi]:
                    f.write(json.dumps(c) + "\n")
            if os.path.exists(co):
                os.remove(co)
            rc, out = sh([binpath, ci, co] + list(args), timeout=timeout, env=env)
            res = []
            if os.path.exists(co):
                for line in open(co):
                    line = line.strip()
                    if line:
                        res.append(json.loads(line))
            return k, rc, out, res

        with concurrent.futures.ThreadPoolExecutor(max_workers=shards) as ex:
            for k, rc, out, res in ex.map(one, range(shards)):
                lo, hi = bounds[k]
                for j, r in enumerate(res[: hi - lo]):
                    results[lo + j] = r
                if rc != 0 or len(res) != hi - lo:
                    self.log("driver shard %d rc=%s produced %d/%d results; tail: %s" % (k, rc, len(res), hi - lo, out[-500:]))
                    for j in range(len(res), hi - lo):
                        results[lo + j] = {"driver_died": True, "rc": rc, "tail": out[-300:]}
        return results

    # -- verdict ----------------------------------------------------------------------------
    def finish(self, level="proof", rule="", trusted_base=(), assumptions=(), extra=None):
        cov = self.coverage
        cov["distinct_nontrivial"] = len(self._distinct)
        cov["rule"] = rule
        cov["trusted_base"] = list(trusted_base) + ["axioms: " + ", ".join(cov.get("axioms_used", ["(not built)"]))]
        cov["streams"] = self.streams
        if extra:
            cov.update(extra)
        os.makedirs(os.path.join(VERIF, "replays"), exist_ok=True)
        lines = []
        nviol = 0
        if self.violations:
            for n, (case, detail) in enumerate(self.violations[:5]):
                path = os.path.join("replays", "%s-%d-%d.json" % (self.prop, self.seed, n))
                with open(os.path.join(VERIF, path), "w") as f:
                    json.dump({"property": self.prop, "seed": self.seed, "tier": self.tier, "kind": "violation",
                               "case": case, "detail": detail}, f, indent=1, default=str)
                lines.append("VIOLATION property=%s replay=%s" % (self.prop, path))
            nviol = len(self.violations)
        elif self.brokens:
            path = os.path.join("replays", "%s-%d-obligation.json" % (self.prop, self.seed))
            with open(os.path.join(VERIF, path), "w") as f:
                json.dump({"property": self.prop, "seed": self.seed, "tier": self.tier,
                           "kind": "obligation-broken-no-failing-input-found",
                           "broken": [{"kind": k, "name": nm, "detail": dt, "case": cs} for k, nm, dt, cs in self.brokens[:20]]},
                          f, indent=1, default=str)
            lines.append("VIOLATION property=%s replay=%s no-failing-input-found" % (self.prop, path))
            nviol = len(self.brokens)
        cov["known_findings_reproduced"] = list(self.known_lines)
        if self.brokens:
            cov["broken_obligations"] = [{"kind": k, "name": nm, "detail": str(dt)[:400]} for k, nm, dt, cs in self.brokens[:20]]
            if level == "proof" and any(k in ("proof", "audit") for k, _, _, _ in self.brokens):
                cov["discharged"] = min(cov.get("discharged", 0), max(0, cov.get("obligations", 0) - 1))
        ev = {"property_id": self.prop, "tier": self.tier, "seed": self.seed, "level": level, "coverage": cov,
              "assumptions": list(assumptions), "wall_s": round(time.time() - self.t0, 2), "violations": nviol}
        os.makedirs(os.path.join(VERIF, "evidence"), exist_ok=True)
        evpath = os.path.join(VERIF, "evidence", "%s.json" % self.prop)
        if getattr(self, "replay", None) is not None:
            # a replay run re-examines one recorded case; it must not replace the evidence of a full run
            evpath = os.path.join(CACHE, "replay_evidence_%s.json" % self.prop)
        with open(evpath, "w") as f:
            json.dump(ev, f, indent=1, default=str)
        if not lines and os.environ.get("VERIF_KEEP_WORK") != "1":
            shutil.rmtree(self.work, ignore_errors=True)
        for l in self.known_lines:
            print(l)
        for l in lines:
            print(l)
        self.log("done: evaluations=%d distinct_nontrivial=%d violations=%d broken=%d wall=%.1fs" % (
            cov["evaluations"], cov["distinct_nontrivial"], len(self.violations), len(self.brokens), time.time() - self.t0))
        sys.stdout.flush()
        sys.exit(1 if lines else 0)


# ----------------------------------------------------------------------------------------------
def strip_coq_comments(txt):
    out, depth, i = [], 0, 0
    instr = False
    while i < len(txt):
        if not instr and txt.startswith("(*", i):
            depth += 1
            i += 2
            continue
        if not instr and depth and txt.startswith("*)", i):
            depth -= 1
            i += 2
            continue
        c = txt[i]
        if depth == 0:
            if c == '"':
                instr = not instr
            out.append(c)
        i += 1
    return "".join(out)


def coqproject_flags(d):
    flags = []
    for line in open(os.path.join(d, "_CoqProject")):
        line = line.strip()
        if line.startswith("-Q") or line.startswith("-R"):
            flags += line.split()
    return flags


def parse_assumptions(out):
    """Returns (number of closed theorems, [axiom lists of the others], [non-allow-listed axioms])."""
    closed = len(re.findall(r"Closed under the global context", out))
    axioms, bad = [], []
    for block in re.split(r"^Axioms:\s*$", out, flags=re.M)[1:]:
        names = []
        for line in block.splitlines():
            if line.strip() == "":
                if names:
                    break
                continue
            # `name : type` on one line, or a bare `name` when Coq wraps a long type onto the next lines
            m = re.match(r"^([A-Za-z_][\w\.']*)\s*(?::.*)?$", line)
            if m and not line.startswith(" "):
                names.append(m.group(1))
            elif re.match(r"^\S", line) and not line.startswith(" "):
                if re.match(r"^(Closed under|Axioms:|     =)", line):
                    break
        axioms.append(names)
        for nme in names:
            if nme not in AXIOM_ALLOW and nme.split(".")[-1] not in AXIOM_ALLOW:
                bad.append(nme)
    return closed, axioms, bad


def theorem_names(path):
    txt = strip_coq_comments(open(path).read())
    return re.findall(r"^\s*(?:Theorem|Lemma|Corollary)\s+([\w']+)", txt, re.M)


def main(argv):
    import argparse
    import importlib
    ap = argparse.ArgumentParser()
    ap.add_argument("prop")
    ap.add_argument("--tier", default=os.environ.get("VERIF_TIER", "quick"), choices=["quick", "thorough"])
    ap.add_argument("--replay", default=None)
    ap.add_argument("--seed", type=int, default=int(os.environ.get("VERIF_SEED", DEFAULT_SEED)))
    a = ap.parse_args(argv)
    sys.path.insert(0, os.path.join(VERIF, "checks"))
    sys.path.insert(0, os.path.join(VERIF, "lib"))
    mod = importlib.import_module(a.prop.lower())
    ctx = Ctx(a.prop.upper(), a.tier, a.seed)
    if a.replay:
        ctx.replay = json.load(open(a.replay if os.path.isabs(a.replay) else os.path.join(VERIF, a.replay)))
        mod.replay(ctx)
    else:
        ctx.replay = None
        mod.run(ctx)
    # a check module must end with ctx.finish(); reaching here is a programming error
    print("[%s] check module returned without a verdict" % a.prop)
    sys.exit(2)
